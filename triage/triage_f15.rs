use std::collections::HashMap;
use crate::crypto::{PrivateKey, SignatureScheme};
use crate::models::inspection::Inspection;
use crate::models::rule::ArtifactRule;
use crate::models::step::{Command, Step};
use crate::models::{LayoutMetadataBuilder, MetablockBuilder};
use crate::verifylib::in_toto_verify;

const K1: &[u8] = include_bytes!("../tests/ed25519/ed25519-1.pk8.der");
const K2: &[u8] = include_bytes!("../tests/ed25519/ed25519-2.pk8.der");
const K3: &[u8] = include_bytes!("../tests/ed25519/ed25519-3.pk8.der");
fn key(b: &[u8]) -> PrivateKey { PrivateKey::from_pkcs8(b, SignatureScheme::Ed25519).unwrap() }

#[test]
fn f15_sublayout_inspection_order() {
    let (owner, alice, bob) = (key(K1), key(K2), key(K3));
    let root = LayoutMetadataBuilder::new()
        .add_key(alice.public().clone()).add_key(bob.public().clone())
        .add_step(Step::new("sa").threshold(1).add_key(alice.key_id().clone()))
        .add_step(Step::new("sb").threshold(1).add_key(bob.key_id().clone()))
        .build().unwrap();
    let root = MetablockBuilder::from_metadata(Box::new(root)).sign(&[&owner]).unwrap().build();
    let sub = |name: &str, rule: ArtifactRule, k: &PrivateKey| {
        let l = LayoutMetadataBuilder::new()
            .add_inspect(Inspection::new(name).run(Command::from(vec!["true".to_string()])).add_expected_material(rule))
            .build().unwrap();
        MetablockBuilder::from_metadata(Box::new(l)).sign(&[k]).unwrap().build()
    };
    let links = tempfile::tempdir().unwrap();
    let sa = sub("ia", ArtifactRule::Disallow("*".into()), &alice);
    let sb = sub("ib", ArtifactRule::Allow("*".into()), &bob);
    std::fs::write(links.path().join(format!("sa.{}.link", alice.key_id().prefix())), serde_json::to_string(&sa).unwrap()).unwrap();
    std::fs::write(links.path().join(format!("sb.{}.link", bob.key_id().prefix())), serde_json::to_string(&sb).unwrap()).unwrap();
    let old = std::env::current_dir().unwrap();
    let (mut ok, mut err) = (0, 0);
    let mut msgs = std::collections::BTreeSet::new();
    for _ in 0..64 {
        let cwd = tempfile::tempdir().unwrap();
        std::env::set_current_dir(cwd.path()).unwrap();
        let keys = HashMap::from([(owner.key_id().clone(), owner.public().clone())]);
        match in_toto_verify(&root, keys, links.path().to_str().unwrap(), None) {
            Ok(_) => ok += 1,
            Err(e) => { err += 1; msgs.insert(e.to_string().chars().take(90).collect::<String>()); }
        }
        std::env::set_current_dir(&old).unwrap();
    }
    println!("TRIAGE F15 64 identical verifications: Ok={} Err={} {:?}", ok, err, msgs);
}
