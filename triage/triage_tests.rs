//! scratch triage only (never committed): concrete inputs for the findings in DESIGN.md §6
use std::collections::{BTreeMap, HashMap};
use std::panic::catch_unwind;
use std::str::FromStr;

use crate::crypto::{HashAlgorithm, HashValue, KeyId, PrivateKey, PublicKey, SignatureScheme};
use crate::models::byproducts::ByProducts;
use crate::models::inspection::Inspection;
use crate::models::rule::{Artifact, ArtifactRule};
use crate::models::step::{Command, Step};
use crate::models::supply_chain_item::SupplyChainItem;
use crate::models::{
    LayoutMetadataBuilder, LinkMetadata, LinkMetadataBuilder, Metablock, MetablockBuilder,
    VirtualTargetPath,
};
use crate::rulelib::apply_rules_on_link;
use crate::verifylib::in_toto_verify;

const K1: &[u8] = include_bytes!("../tests/ed25519/ed25519-1.pk8.der");
const K2: &[u8] = include_bytes!("../tests/ed25519/ed25519-2.pk8.der");
const K3: &[u8] = include_bytes!("../tests/ed25519/ed25519-3.pk8.der");

fn key(b: &[u8]) -> PrivateKey {
    PrivateKey::from_pkcs8(b, SignatureScheme::Ed25519).unwrap()
}
fn desc(byte: u8) -> HashMap<HashAlgorithm, HashValue> {
    HashMap::from([(HashAlgorithm::Sha256, HashValue::new(vec![byte; 32]))])
}
fn link(name: &str, mats: &[(&str, u8)], prods: &[(&str, u8)]) -> LinkMetadata {
    let m: BTreeMap<_, _> = mats.iter().map(|(p, b)| (VirtualTargetPath::from(*p), desc(*b))).collect();
    let p: BTreeMap<_, _> = prods.iter().map(|(p, b)| (VirtualTargetPath::from(*p), desc(*b))).collect();
    LinkMetadataBuilder::new().name(name.into()).materials(m).products(p)
        .byproducts(ByProducts::new().set_return_value(0)).build().unwrap()
}
fn write_link(dir: &std::path::Path, step: &str, l: LinkMetadata, k: &PrivateKey) {
    let mb = MetablockBuilder::from_metadata(Box::new(l)).sign(&[k]).unwrap().build();
    let f = dir.join(format!("{}.{}.link", step, k.key_id().prefix()));
    std::fs::write(f, serde_json::to_string(&mb).unwrap()).unwrap();
}

#[test]
fn f1_unauthorized_functionary_counts() {
    let (owner, alice, bob) = (key(K1), key(K2), key(K3));
    let layout = LayoutMetadataBuilder::new()
        .add_key(alice.public().clone()).add_key(bob.public().clone())
        .add_step(Step::new("a").threshold(1).add_key(alice.key_id().clone()))
        .add_step(Step::new("b").threshold(1).add_key(bob.key_id().clone()))
        .build().unwrap();
    let lb = MetablockBuilder::from_metadata(Box::new(layout)).sign(&[&owner]).unwrap().build();
    let d = tempfile::tempdir().unwrap();
    write_link(d.path(), "a", link("a", &[], &[]), &alice);
    write_link(d.path(), "b", link("b", &[], &[]), &alice); // alice is NOT authorized for b
    let keys = HashMap::from([(owner.key_id().clone(), owner.public().clone())]);
    let r = in_toto_verify(&lb, keys, d.path().to_str().unwrap(), None);
    println!("TRIAGE F1 verify with step b signed only by alice (authorized for a only): {:?}", r.as_ref().map(|_| "Ok").map_err(|e| e.to_string()));
}

fn item(rules_m: Vec<ArtifactRule>, rules_p: Vec<ArtifactRule>) -> Box<dyn SupplyChainItem> {
    Box::new(Step::new("x").expected_materials(rules_m).expected_products(rules_p))
}

#[test]
fn f2_f3_f4_rules() {
    // F2: MATCH foo consumes bar (equal in source), which then escapes DISALLOW *
    let links = HashMap::from([
        ("x".to_string(), link("x", &[("foo", 1), ("bar", 2)], &[])),
        ("s".to_string(), link("s", &[], &[("foo", 1), ("bar", 2)])),
    ]);
    let it = item(vec![
        ArtifactRule::Match { pattern: "foo".into(), in_src: None, with: Artifact::Products, in_dst: None, from: "s".into() },
        ArtifactRule::Disallow("*".into()),
    ], vec![]);
    println!("TRIAGE F2 MATCH foo; DISALLOW * with extra material bar: {:?}", apply_rules_on_link(&it, &links).map_err(|e| "Err"));
    // control: without the MATCH rule bar is disallowed
    let it = item(vec![ArtifactRule::Allow("foo".into()), ArtifactRule::Disallow("*".into())], vec![]);
    println!("TRIAGE F2 control ALLOW foo; DISALLOW *: {:?}", apply_rules_on_link(&it, &links).map_err(|e| "Err"));

    // F3: MATCH * IN src ... consumes artifact outside src/
    let links = HashMap::from([
        ("x".to_string(), link("x", &[("other/a", 1)], &[])),
        ("s".to_string(), link("s", &[], &[("other/a", 1)])),
    ]);
    let it = item(vec![
        ArtifactRule::Match { pattern: "*".into(), in_src: Some("src".into()), with: Artifact::Products, in_dst: None, from: "s".into() },
        ArtifactRule::Disallow("*".into()),
    ], vec![]);
    println!("TRIAGE F3 MATCH * IN src; DISALLOW * with material other/a: {:?}", apply_rules_on_link(&it, &links).map_err(|e| "Err"));

    // F4: DISALLOW with an uninterpretable pattern
    let links = HashMap::from([("x".to_string(), link("x", &[("evil", 1)], &[]))]);
    let it = item(vec![ArtifactRule::Disallow("[".into())], vec![]);
    println!("TRIAGE F4 DISALLOW '[' : {:?}", apply_rules_on_link(&it, &links).map_err(|e| "Err"));
}

#[test]
fn f5_inspection_exit_status() {
    let owner = key(K1);
    let layout = LayoutMetadataBuilder::new()
        .add_inspect(Inspection::new("insp").run(Command::from(vec!["sh".to_string(), "-c".to_string(), "exit 7".to_string()])))
        .build().unwrap();
    let lb = MetablockBuilder::from_metadata(Box::new(layout)).sign(&[&owner]).unwrap().build();
    let d = tempfile::tempdir().unwrap();
    let old = std::env::current_dir().unwrap();
    std::env::set_current_dir(d.path()).unwrap();
    let keys = HashMap::from([(owner.key_id().clone(), owner.public().clone())]);
    let r = in_toto_verify(&lb, keys, ".", None);
    std::env::set_current_dir(old).unwrap();
    println!("TRIAGE F5 inspection exits 7: {:?}", r.as_ref().map(|_| "Ok").map_err(|e| e.to_string()));
}

#[test]
fn f8_nondeterministic_representative() {
    let (owner, alice, bob) = (key(K1), key(K2), key(K3));
    let layout = LayoutMetadataBuilder::new()
        .add_key(alice.public().clone()).add_key(bob.public().clone())
        .add_step(Step::new("a").threshold(1).add_key(alice.key_id().clone()).add_key(bob.key_id().clone()))
        .build().unwrap();
    let lb = MetablockBuilder::from_metadata(Box::new(layout)).sign(&[&owner]).unwrap().build();
    let d = tempfile::tempdir().unwrap();
    write_link(d.path(), "a", link("a", &[], &[("out", 1)]), &alice);
    write_link(d.path(), "a", link("a", &[], &[("out", 2)]), &bob);
    let mut seen = std::collections::BTreeSet::new();
    for _ in 0..64 {
        let keys = HashMap::from([(owner.key_id().clone(), owner.public().clone())]);
        let r = in_toto_verify(&lb, keys, d.path().to_str().unwrap(), None).unwrap();
        seen.insert(serde_json::to_string(&r).unwrap());
    }
    println!("TRIAGE F8 distinct summaries over 64 identical runs: {}", seen.len());
}

#[test]
fn f9_keyid_prefix_panic() {
    let (owner, alice) = (key(K1), key(K2));
    let layout = LayoutMetadataBuilder::new()
        .add_key(alice.public().clone())
        .add_step(Step::new("a").threshold(1).add_key(alice.key_id().clone()))
        .build().unwrap();
    let lb = MetablockBuilder::from_metadata(Box::new(layout)).sign(&[&owner]).unwrap().build();
    let d = tempfile::tempdir().unwrap();
    let kid = format!("{}\u{e9}{}", "a".repeat(7), "b".repeat(55)); // 64 bytes, 'é' straddles byte 8
    assert_eq!(kid.len(), 64);
    let doc = serde_json::json!({"signatures":[{"keyid": kid, "sig": "00"}],
        "signed": {"_type":"link","name":"a","materials":{},"products":{},"byproducts":{},"command":[],"environment":null}});
    std::fs::write(d.path().join("a.aaaaaaaa.link"), doc.to_string()).unwrap();
    let dir = d.path().to_str().unwrap().to_string();
    let r = catch_unwind(move || {
        let keys = HashMap::from([(owner.key_id().clone(), owner.public().clone())]);
        in_toto_verify(&lb, keys, &dir, None).map(|_| ())
    });
    println!("TRIAGE F9 unsigned attacker file with non-ASCII keyid: panicked={}", r.is_err());
}

#[test]
fn f10_pae_unpack_panics() {
    use crate::models::envelope_triage_unpack;
    for input in [&b"DSSEv1 9 x"[..], b"DSSEv1 1 x 5 ab", b"DSSEv1 18446744073709551615 x"] {
        let v = input.to_vec();
        let r = catch_unwind(move || envelope_triage_unpack(&v).is_ok());
        println!("TRIAGE F10 pae_unpack({:?}): panicked={}", String::from_utf8_lossy(input), r.is_err());
    }
}

#[test]
fn f11_rule_engine_index_panic() {
    let links = HashMap::from([("x".to_string(), link("x", &[("./a", 1)], &[("./a", 2)]))]);
    let r = catch_unwind(move || {
        let it = item(vec![ArtifactRule::Allow("*".into())], vec![]);
        apply_rules_on_link(&it, &links).is_ok()
    });
    println!("TRIAGE F11 material+product './a': panicked={}", r.is_err());
}

#[test]
fn f12_key_import_panics() {
    let r = catch_unwind(|| PrivateKey::from_pkcs8(b"not a key", SignatureScheme::Ed25519).is_ok());
    println!("TRIAGE F12 PrivateKey::from_pkcs8(garbage): panicked={}", r.is_err());
    let r = catch_unwind(|| PublicKey::from_pem_spki("not pem", SignatureScheme::Ed25519).is_ok());
    println!("TRIAGE F12 PublicKey::from_pem_spki(garbage): panicked={}", r.is_err());
}

#[test]
fn f13_channel_dependence() {
    let txt = r#"{"_type":"step","name":"s","threshold":1,"expected_materials":[["CREATE","x"]],"expected_products":[],"pubkeys":[],"expected_command":[]}"#;
    let a = serde_json::from_str::<Step>(txt).is_ok();
    let b = serde_json::from_reader::<_, Step>(txt.as_bytes()).is_ok();
    let c = serde_json::from_value::<Step>(serde_json::from_str(txt).unwrap()).is_ok();
    let esc = txt.replace("CREATE", "\\u0043REATE");
    let e = serde_json::from_str::<Step>(&esc).is_ok();
    println!("TRIAGE F13 step with a rule: from_str={} from_reader={} from_value={} escaped_from_str={}", a, b, c, e);
    let p = serde_json::json!({"builder":{"id":"b"},"metadata":{"buildStartedOn":"2020-01-01T00:00:00Z"}});
    println!("TRIAGE F13 SLSA v0.1 predicate with timestamp via PredicateWrapper: ok={}", crate::models::PredicateWrapper::try_from_value(p).is_ok());
}

#[test]
fn f14_statement_type_mismatch() {
    let doc = serde_json::json!({"_type":"https://in-toto.io/Statement/v0.1","subject":{},
        "predicateType":"https://slsa.dev/provenance/v0.2",
        "predicate":{"name":"","materials":{},"env":null,"command":[],"byproducts":{}}});
    let r = crate::models::StatementWrapper::try_from_value(doc);
    println!("TRIAGE F14 predicateType=SLSA v0.2 with a Link v0.2 predicate accepted: {}", r.is_ok());
    if let Ok(w) = r {
        let s = serde_json::to_value(&w).unwrap();
        println!("TRIAGE F14 StatementWrapper serialises as: {}", s.to_string().chars().take(60).collect::<String>());
        println!("TRIAGE F14 ...and parses back: {}", crate::models::StatementWrapper::try_from_value(s).is_ok());
    }
}

#[test]
fn f7_spki_roundtrip() {
    let ec = PublicKey::from_spki(include_bytes!("../tests/ecdsa/ec.spki.der"), SignatureScheme::EcdsaP256Sha256).unwrap();
    let der = ec.as_spki().unwrap();
    println!("TRIAGE F7 ecdsa as_spki == original: {}  re-import ok: {}", der == include_bytes!("../tests/ecdsa/ec.spki.der"), PublicKey::from_spki(&der, SignatureScheme::EcdsaP256Sha256).is_ok());
    // RFC 8410 Ed25519 SPKI: 30 2a 30 05 06 03 2b 65 70 03 21 00 <32 bytes>
    let mut std_spki = vec![0x30, 0x2a, 0x30, 0x05, 0x06, 0x03, 0x2b, 0x65, 0x70, 0x03, 0x21, 0x00];
    std_spki.extend_from_slice(include_bytes!("../tests/ed25519/ed25519-1.pub"));
    println!("TRIAGE F7 RFC 8410 ed25519 SPKI import ok: {}", PublicKey::from_spki(&std_spki, SignatureScheme::Ed25519).is_ok());
}

#[test]
fn f6_escaping() {
    let k = key(K1);
    let l = LinkMetadataBuilder::new().name("n".into())
        .byproducts(ByProducts::new().set_stdout("a\tb\\nc".into())).build().unwrap();
    let bytes = crate::models::MetadataWrapper::Link(l.clone()).to_bytes().unwrap();
    let signed = String::from_utf8(bytes).unwrap().replace("\\n", "\n");
    println!("TRIAGE F6 signed bytes fragment: {:?}", &signed[signed.find("stdout").unwrap()..]);
    let _ = k;
}
