//! itv-facts: rustc_private driver that dumps the type-checked program (ADTs, impls, MIR with
//! resolved callees) of the crate under analysis as one JSON document.
//!
//! Used as RUSTC_WORKSPACE_WRAPPER.  Environment:
//!   ITV_CRATES  comma separated crate names to dump (default: in_toto)
//!   ITV_OUT     output directory; one file `<crate>.facts.json` per dumped crate
//!   ITV_NONCE   copied into the document so the caller can prove the driver really ran
#![feature(rustc_private)]
extern crate rustc_abi;
extern crate rustc_driver;
extern crate rustc_hir;
extern crate rustc_interface;
extern crate rustc_middle;
extern crate rustc_span;

use rustc_abi::FIRST_VARIANT;
use rustc_driver::Compilation;
use rustc_hir::def::DefKind;
use rustc_hir::def_id::{DefId, LOCAL_CRATE};
use rustc_middle::mir::{
    AggregateKind, AssertKind, BasicBlock, Body, BorrowKind, Const, ConstValue, Operand, Place,
    ProjectionElem, Rvalue, StatementKind, TerminatorKind, UnwindAction, VarDebugInfoContents,
};
use rustc_middle::ty::{self, Instance, Ty, TyCtxt, TypingEnv};
use rustc_span::hygiene::{DesugaringKind, ExpnKind, MacroKind};
use rustc_span::Span;
use std::fmt::Write as _;

// ------------------------------------------------------------------------------------------
// minimal JSON
// ------------------------------------------------------------------------------------------
enum J {
    Null,
    Bool(bool),
    Int(i128),
    Str(String),
    Arr(Vec<J>),
    Obj(Vec<(&'static str, J)>),
}

fn s<T: Into<String>>(x: T) -> J {
    J::Str(x.into())
}

impl J {
    fn write(&self, out: &mut String) {
        match self {
            J::Null => out.push_str("null"),
            J::Bool(b) => out.push_str(if *b { "true" } else { "false" }),
            J::Int(i) => {
                let _ = write!(out, "{}", i);
            }
            J::Str(st) => {
                out.push('"');
                for c in st.chars() {
                    match c {
                        '"' => out.push_str("\\\""),
                        '\\' => out.push_str("\\\\"),
                        '\n' => out.push_str("\\n"),
                        '\r' => out.push_str("\\r"),
                        '\t' => out.push_str("\\t"),
                        c if (c as u32) < 0x20 => {
                            let _ = write!(out, "\\u{:04x}", c as u32);
                        }
                        c => out.push(c),
                    }
                }
                out.push('"');
            }
            J::Arr(v) => {
                out.push('[');
                for (i, x) in v.iter().enumerate() {
                    if i > 0 {
                        out.push(',');
                    }
                    x.write(out);
                }
                out.push(']');
            }
            J::Obj(v) => {
                out.push('{');
                for (i, (k, x)) in v.iter().enumerate() {
                    if i > 0 {
                        out.push(',');
                    }
                    out.push('"');
                    out.push_str(k);
                    out.push_str("\":");
                    x.write(out);
                }
                out.push('}');
            }
        }
    }
}

// ------------------------------------------------------------------------------------------
// helpers
// ------------------------------------------------------------------------------------------
fn key<'tcx>(tcx: TyCtxt<'tcx>, did: DefId) -> String {
    // unique within a crate; prefixed with the crate name for non-local items
    let p = tcx.def_path(did).to_string_no_crate_verbose();
    if did.is_local() {
        p
    } else {
        format!("{}{}", tcx.crate_name(did.krate), p)
    }
}

fn expn(span: Span) -> J {
    if !span.from_expansion() {
        return J::Null;
    }
    let mut parts: Vec<String> = Vec::new();
    let mut sp = span;
    let mut depth = 0;
    while sp.from_expansion() && depth < 6 {
        let d = sp.ctxt().outer_expn_data();
        let p = match d.kind {
            ExpnKind::Root => "root".to_string(),
            ExpnKind::Macro(MacroKind::Bang, n) => format!("m:{}", n),
            ExpnKind::Macro(MacroKind::Derive, n) => format!("d:{}", n),
            ExpnKind::Macro(MacroKind::Attr, n) => format!("a:{}", n),
            ExpnKind::AstPass(_) => "astpass".to_string(),
            ExpnKind::Desugaring(k) => format!(
                "s:{}",
                match k {
                    DesugaringKind::QuestionMark => "question",
                    DesugaringKind::ForLoop => "for",
                    DesugaringKind::WhileLoop => "while",
                    DesugaringKind::Async => "async",
                    DesugaringKind::Await => "await",
                    _ => "other",
                }
            ),
        };
        parts.push(p);
        sp = d.call_site;
        depth += 1;
    }
    s(parts.join(">"))
}

fn loc<'tcx>(tcx: TyCtxt<'tcx>, span: Span) -> J {
    let sp = if span.from_expansion() { span.source_callsite() } else { span };
    let sm = tcx.sess.source_map();
    let lo = sm.lookup_char_pos(sp.lo());
    let hi = sm.lookup_char_pos(sp.hi());
    let name = format!("{}", lo.file.name.prefer_local_unconditionally());
    s(format!("{}:{}:{}-{}:{}", name, lo.line, lo.col.0 + 1, hi.line, hi.col.0 + 1))
}

fn ty_s<'tcx>(t: Ty<'tcx>) -> String {
    format!("{}", t)
}

struct Cx<'a, 'tcx> {
    tcx: TyCtxt<'tcx>,
    body: &'a Body<'tcx>,
    did: DefId,
}

impl<'a, 'tcx> Cx<'a, 'tcx> {
    fn place(&self, p: &Place<'tcx>) -> J {
        let mut proj: Vec<J> = Vec::new();
        for (base, elem) in p.iter_projections() {
            let bty = base.ty(&self.body.local_decls, self.tcx);
            match elem {
                ProjectionElem::Deref => proj.push(s("*")),
                ProjectionElem::Field(f, fty) => {
                    let (name, adt) = match bty.ty.kind() {
                        ty::Adt(def, _) => {
                            let v = bty.variant_index.unwrap_or(FIRST_VARIANT);
                            let vd = def.variant(v);
                            (
                                vd.fields[f].name.to_string(),
                                format!("{}::{}", self.tcx.def_path_str(def.did()), vd.name),
                            )
                        }
                        ty::Closure(..) => (format!("{}", f.index()), "closure".to_string()),
                        ty::Tuple(..) => (format!("{}", f.index()), "tuple".to_string()),
                        _ => (format!("{}", f.index()), "?".to_string()),
                    };
                    proj.push(J::Obj(vec![
                        ("f", s(name)),
                        ("i", J::Int(f.index() as i128)),
                        ("of", s(adt)),
                        ("ty", s(ty_s(fty))),
                    ]));
                }
                ProjectionElem::Index(l) => {
                    proj.push(J::Obj(vec![("idx", J::Int(l.index() as i128))]))
                }
                ProjectionElem::ConstantIndex { offset, min_length, from_end } => {
                    proj.push(J::Obj(vec![
                        ("ci", J::Int(offset as i128)),
                        ("min", J::Int(min_length as i128)),
                        ("from_end", J::Bool(from_end)),
                    ]))
                }
                ProjectionElem::Subslice { from, to, from_end } => proj.push(J::Obj(vec![
                    ("sub", J::Int(from as i128)),
                    ("to", J::Int(to as i128)),
                    ("from_end", J::Bool(from_end)),
                ])),
                ProjectionElem::Downcast(name, vi) => {
                    let n = match name {
                        Some(n) => n.to_string(),
                        None => match bty.ty.kind() {
                            ty::Adt(def, _) => def.variant(vi).name.to_string(),
                            _ => format!("{}", vi.index()),
                        },
                    };
                    proj.push(J::Obj(vec![("d", s(n)), ("vi", J::Int(vi.index() as i128))]))
                }
                ProjectionElem::OpaqueCast(_) => proj.push(s("opaque")),
                ProjectionElem::UnwrapUnsafeBinder(_) => proj.push(s("unbind")),
            }
        }
        J::Obj(vec![("l", J::Int(p.local.index() as i128)), ("p", J::Arr(proj))])
    }

    fn constant(&self, c: &Const<'tcx>) -> J {
        let tcx = self.tcx;
        let t = c.ty();
        let mut o: Vec<(&'static str, J)> = vec![("ty", s(ty_s(t)))];
        match t.kind() {
            ty::FnDef(did, args) => {
                o.push(("fn", s(tcx.def_path_str(*did))));
                o.push(("fn_args", s(tcx.def_path_str_with_args(*did, args))));
                if did.is_local() {
                    o.push(("fn_key", s(key(tcx, *did))));
                }
            }
            ty::Bool | ty::Char | ty::Int(_) | ty::Uint(_) => {
                let env = TypingEnv::post_analysis(tcx, self.did);
                if let Some(si) = c.try_eval_scalar_int(tcx, env) {
                    let size = si.size();
                    let bits = si.to_bits(size);
                    let v: i128 = match t.kind() {
                        ty::Int(_) => si.to_int(size),
                        _ => bits as i128,
                    };
                    o.push(("int", J::Int(v)));
                }
            }
            ty::Ref(_, inner, _) if inner.is_str() => {
                let env = TypingEnv::post_analysis(tcx, self.did);
                let cv_opt = match c {
                    Const::Val(cv, _) => Some(*cv),
                    _ => c.eval(tcx, env, rustc_span::DUMMY_SP).ok(),
                };
                if let Some(cv) = cv_opt {
                    if let ConstValue::Slice { .. } | ConstValue::Indirect { .. } = cv {
                        if let Some(b) = cv.try_get_slice_bytes_for_diagnostics(tcx) {
                            o.push(("str", s(String::from_utf8_lossy(b).to_string())));
                        }
                    }
                }
            }
            ty::Ref(_, inner, _) => {
                // byte string literals &[u8; N] / &[u8]
                let is_bytes = match inner.kind() {
                    ty::Slice(e) => *e == tcx.types.u8,
                    _ => false,
                };
                if is_bytes {
                    if let Const::Val(cv, _) = c {
                        if let ConstValue::Slice { .. } = cv {
                            if let Some(b) = cv.try_get_slice_bytes_for_diagnostics(tcx) {
                                o.push(("str", s(String::from_utf8_lossy(b).to_string())));
                            }
                        }
                    }
                }
            }
            _ => {}
        }
        // pointers to statics: emit the static's path (e.g. ring::signature::ED25519)
        if let Const::Val(ConstValue::Scalar(rustc_middle::mir::interpret::Scalar::Ptr(ptr, _)), _) = c {
            let aid = ptr.provenance.alloc_id();
            if let Some(rustc_middle::mir::interpret::GlobalAlloc::Static(sd)) = tcx.try_get_global_alloc(aid) {
                o.push(("static", s(tcx.def_path_str(sd))));
            }
        }
        if let Const::Unevaluated(u, _) = c {
            if let Some(p) = u.promoted {
                o.push(("promoted", J::Int(p.index() as i128)));
                o.push(("promoted_of", s(key(tcx, u.def))));
            }
            o.push(("uneval", s(tcx.def_path_str(u.def))));
        }
        o.push(("repr", s(format!("{}", c))));
        J::Obj(o)
    }

    fn operand(&self, op: &Operand<'tcx>) -> J {
        match op {
            Operand::Copy(p) => J::Obj(vec![("copy", self.place(p))]),
            Operand::Move(p) => J::Obj(vec![("move", self.place(p))]),
            Operand::Constant(c) => J::Obj(vec![("const", self.constant(&c.const_))]),
            _ => J::Obj(vec![("other", s(format!("{:?}", op)))]),
        }
    }

    fn rvalue(&self, rv: &Rvalue<'tcx>) -> J {
        let tcx = self.tcx;
        match rv {
            Rvalue::Use(op, ..) => J::Obj(vec![("k", s("use")), ("op", self.operand(op))]),
            Rvalue::Repeat(op, n) => J::Obj(vec![
                ("k", s("repeat")),
                ("op", self.operand(op)),
                ("n", s(format!("{}", n))),
            ]),
            Rvalue::Ref(_, bk, p) => J::Obj(vec![
                ("k", s("ref")),
                ("mut", J::Bool(matches!(bk, BorrowKind::Mut { .. }))),
                ("place", self.place(p)),
            ]),
            Rvalue::RawPtr(k, p) => J::Obj(vec![
                ("k", s("rawptr")),
                ("kind", s(format!("{:?}", k))),
                ("place", self.place(p)),
            ]),
            Rvalue::Cast(k, op, t) => J::Obj(vec![
                ("k", s("cast")),
                ("kind", s(format!("{:?}", k))),
                ("op", self.operand(op)),
                ("ty", s(ty_s(*t))),
            ]),
            Rvalue::BinaryOp(bop, ab) => J::Obj(vec![
                ("k", s("binop")),
                ("op", s(format!("{:?}", bop))),
                ("a", self.operand(&ab.0)),
                ("b", self.operand(&ab.1)),
            ]),
            Rvalue::UnaryOp(uop, a) => J::Obj(vec![
                ("k", s("unop")),
                ("op", s(format!("{:?}", uop))),
                ("a", self.operand(a)),
            ]),
            Rvalue::Discriminant(p) => {
                let pty = p.ty(&self.body.local_decls, tcx).ty;
                let mut o: Vec<(&'static str, J)> =
                    vec![("k", s("discr")), ("place", self.place(p)), ("pty", s(ty_s(pty)))];
                if let ty::Adt(def, _) = pty.kind() {
                    o.push(("adt", s(tcx.def_path_str(def.did()))));
                    let mut vs = Vec::new();
                    for (vi, v) in def.variants().iter_enumerated() {
                        let d = def.discriminant_for_variant(tcx, vi).val;
                        vs.push(J::Arr(vec![J::Int(d as i128), s(v.name.to_string())]));
                    }
                    o.push(("variants", J::Arr(vs)));
                }
                J::Obj(o)
            }
            Rvalue::Aggregate(kind, ops) => {
                let mut o: Vec<(&'static str, J)> = vec![("k", s("agg"))];
                match &**kind {
                    AggregateKind::Array(t) => {
                        o.push(("agg", s("array")));
                        o.push(("ty", s(ty_s(*t))));
                    }
                    AggregateKind::Tuple => o.push(("agg", s("tuple"))),
                    AggregateKind::Adt(did, vi, _, _, active) => {
                        let def = tcx.adt_def(*did);
                        let vd = def.variant(*vi);
                        o.push(("agg", s("adt")));
                        o.push(("adt", s(tcx.def_path_str(*did))));
                        if did.is_local() {
                            o.push(("adt_key", s(key(tcx, *did))));
                        }
                        o.push(("variant", s(vd.name.to_string())));
                        o.push((
                            "fields",
                            J::Arr(vd.fields.iter().map(|f| s(f.name.to_string())).collect()),
                        ));
                        if let Some(a) = active {
                            o.push(("union_field", J::Int(a.index() as i128)));
                        }
                    }
                    AggregateKind::Closure(did, _) => {
                        o.push(("agg", s("closure")));
                        o.push(("closure_key", s(key(tcx, *did))));
                    }
                    AggregateKind::RawPtr(..) => o.push(("agg", s("rawptr"))),
                    _ => o.push(("agg", s("other"))),
                }
                o.push(("ops", J::Arr(ops.iter().map(|x| self.operand(x)).collect())));
                J::Obj(o)
            }
            Rvalue::CopyForDeref(p) => J::Obj(vec![
                ("k", s("use")),
                ("op", J::Obj(vec![("copy", self.place(p))])),
            ]),
            Rvalue::ThreadLocalRef(d) => {
                J::Obj(vec![("k", s("tls")), ("def", s(tcx.def_path_str(*d)))])
            }
            _ => J::Obj(vec![("k", s("other")), ("repr", s(format!("{:?}", rv)))]),
        }
    }

    fn unwind(&self, u: &UnwindAction) -> J {
        match u {
            UnwindAction::Cleanup(bb) => J::Int(bb.index() as i128),
            _ => J::Null,
        }
    }

    fn bb(&self, b: BasicBlock) -> J {
        J::Int(b.index() as i128)
    }

    fn terminator(&self, t: &rustc_middle::mir::Terminator<'tcx>) -> J {
        let tcx = self.tcx;
        let mut o: Vec<(&'static str, J)> = Vec::new();
        match &t.kind {
            TerminatorKind::Goto { target } => {
                o.push(("k", s("goto")));
                o.push(("target", self.bb(*target)));
            }
            TerminatorKind::SwitchInt { discr, targets } => {
                o.push(("k", s("switch")));
                o.push(("discr", self.operand(discr)));
                let dty = discr.ty(&self.body.local_decls, tcx);
                o.push(("discr_ty", s(ty_s(dty))));
                let signed = matches!(dty.kind(), ty::Int(_));
                let mut arms = Vec::new();
                for (v, bb) in targets.iter() {
                    let val: i128 = if signed {
                        // sign-extend according to the type's size
                        let bits = match dty.kind() {
                            ty::Int(it) => it.bit_width().unwrap_or(64),
                            _ => 128,
                        };
                        let shift = 128 - bits as u32;
                        ((v << shift) as i128) >> shift
                    } else {
                        v as i128
                    };
                    arms.push(J::Arr(vec![J::Int(val), self.bb(bb)]));
                }
                o.push(("arms", J::Arr(arms)));
                o.push(("otherwise", self.bb(targets.otherwise())));
            }
            TerminatorKind::Return => o.push(("k", s("return"))),
            TerminatorKind::Unreachable => o.push(("k", s("unreachable"))),
            TerminatorKind::UnwindResume => o.push(("k", s("resume"))),
            TerminatorKind::UnwindTerminate(_) => o.push(("k", s("terminate"))),
            TerminatorKind::Drop { place, target, unwind, .. } => {
                o.push(("k", s("drop")));
                o.push(("place", self.place(place)));
                o.push(("target", self.bb(*target)));
                o.push(("unwind", self.unwind(unwind)));
            }
            TerminatorKind::Call { func, args, destination, target, unwind, .. } => {
                o.push(("k", s("call")));
                let fty = func.ty(&self.body.local_decls, tcx);
                match fty.kind() {
                    ty::FnDef(cdid, cargs) => {
                        o.push(("callee", s(tcx.def_path_str(*cdid))));
                        o.push(("callee_full", s(tcx.def_path_str_with_args(*cdid, cargs))));
                        if cdid.is_local() {
                            o.push(("callee_key", s(key(tcx, *cdid))));
                        }
                        o.push(("callee_crate", s(tcx.crate_name(cdid.krate).to_string())));
                        o.push((
                            "generics",
                            J::Arr(cargs.iter().map(|a| s(format!("{}", a))).collect()),
                        ));
                        // trait the callee belongs to (if it is a trait method)
                        if let Some(tr) = tcx.trait_of_assoc(*cdid) {
                            o.push(("trait", s(tcx.def_path_str(tr))));
                        }
                        let env = TypingEnv::post_analysis(tcx, self.did);
                        if let Ok(Some(inst)) = Instance::try_resolve(tcx, env, *cdid, cargs) {
                            let rd = inst.def_id();
                            o.push(("resolved", s(tcx.def_path_str(rd))));
                            o.push((
                                "resolved_full",
                                s(tcx.def_path_str_with_args(rd, inst.args)),
                            ));
                            if rd.is_local() {
                                o.push(("resolved_key", s(key(tcx, rd))));
                            }
                            o.push(("resolved_crate", s(tcx.crate_name(rd.krate).to_string())));
                            o.push(("resolved_kind", s(format!("{:?}", inst.def).split('(').next().unwrap_or("").to_string())));
                        }
                    }
                    _ => {
                        o.push(("callee", s("<indirect>")));
                        o.push(("fn_op", self.operand(func)));
                        o.push(("fn_ty", s(ty_s(fty))));
                    }
                }
                o.push(("args", J::Arr(args.iter().map(|a| self.operand(&a.node)).collect())));
                o.push((
                    "arg_tys",
                    J::Arr(
                        args.iter()
                            .map(|a| s(ty_s(a.node.ty(&self.body.local_decls, tcx))))
                            .collect(),
                    ),
                ));
                o.push(("dst", self.place(destination)));
                o.push(("target", match target {
                    Some(b) => self.bb(*b),
                    None => J::Null,
                }));
                o.push(("unwind", self.unwind(unwind)));
            }
            TerminatorKind::Assert { cond, expected, msg, target, unwind } => {
                o.push(("k", s("assert")));
                o.push(("cond", self.operand(cond)));
                o.push(("expected", J::Bool(*expected)));
                let (kind, ops): (&str, Vec<J>) = match &**msg {
                    AssertKind::BoundsCheck { len, index } => {
                        ("bounds", vec![self.operand(len), self.operand(index)])
                    }
                    AssertKind::Overflow(op, a, b) => {
                        o.push(("binop", s(format!("{:?}", op))));
                        ("overflow", vec![self.operand(a), self.operand(b)])
                    }
                    AssertKind::OverflowNeg(a) => ("overflow_neg", vec![self.operand(a)]),
                    AssertKind::DivisionByZero(a) => ("div_zero", vec![self.operand(a)]),
                    AssertKind::RemainderByZero(a) => ("rem_zero", vec![self.operand(a)]),
                    AssertKind::MisalignedPointerDereference { .. } => ("misaligned", vec![]),
                    AssertKind::NullPointerDereference => ("nullptr", vec![]),
                    AssertKind::InvalidEnumConstruction(_) => ("invalid_enum", vec![]),
                    _ => ("other", vec![]),
                };
                o.push(("msg", s(kind)));
                o.push(("ops", J::Arr(ops)));
                o.push(("target", self.bb(*target)));
                o.push(("unwind", self.unwind(unwind)));
            }
            other => {
                o.push(("k", s("other")));
                o.push(("repr", s(format!("{:?}", other))));
            }
        }
        o.push(("at", loc(tcx, t.source_info.span)));
        o.push(("exp", expn(t.source_info.span)));
        J::Obj(o)
    }

    fn dump(&self) -> J {
        let tcx = self.tcx;
        let body = self.body;
        let did = self.did;
        let kind = tcx.def_kind(did);
        let mut o: Vec<(&'static str, J)> = Vec::new();
        o.push(("key", s(key(tcx, did))));
        o.push(("path", s(tcx.def_path_str(did))));
        o.push(("kind", s(format!("{:?}", kind))));
        if matches!(kind, DefKind::Fn | DefKind::AssocFn) {
            o.push(("vis", s(format!("{:?}", tcx.visibility(did)))));
            o.push(("pub", J::Bool(tcx.visibility(did).is_public())));
        }
        if matches!(kind, DefKind::Closure) {
            o.push(("parent", s(key(tcx, tcx.parent(did)))));
        }
        o.push(("name", s(tcx.item_name(tcx.typeck_root_def_id(did)).to_string())));
        if kind == DefKind::AssocFn {
            if let Some(imp) = tcx.impl_of_assoc(did) {
                o.push(("impl_key", s(key(tcx, imp))));
                let self_ty = tcx.type_of(imp).instantiate_identity().skip_norm_wip();
                o.push(("self_ty", s(ty_s(self_ty))));
                if let Some(tr) = tcx.impl_opt_trait_ref(imp) {
                    let tr = tr.instantiate_identity().skip_norm_wip();
                    o.push(("impl_trait", s(tcx.def_path_str(tr.def_id))));
                    o.push(("impl_trait_full", s(format!("{}", tr))));
                }
            }
        }
        if matches!(kind, DefKind::Fn | DefKind::AssocFn) {
            // names of the generic parameters in substitution order (parents first): lets the region builder replace `T` inside an
            // inlined generic helper by the type the call site instantiates it with
            let mut gp: Vec<J> = Vec::new();
            let mut chain = Vec::new();
            let mut cur = Some(did);
            while let Some(d) = cur {
                let g = tcx.generics_of(d);
                chain.push(g);
                cur = g.parent;
            }
            for g in chain.iter().rev() {
                for p in &g.own_params {
                    gp.push(s(p.name.to_string()));
                }
            }
            o.push(("generic_params", J::Arr(gp)));
        }
        o.push(("at", loc(tcx, body.span)));
        o.push(("exp", expn(body.span)));
        o.push(("arg_count", J::Int(body.arg_count as i128)));
        // locals
        let mut names: Vec<Option<String>> = vec![None; body.local_decls.len()];
        let mut upvar_names: Vec<J> = Vec::new();
        for vdi in &body.var_debug_info {
            if let VarDebugInfoContents::Place(p) = &vdi.value {
                if p.projection.is_empty() {
                    if names[p.local.index()].is_none() {
                        names[p.local.index()] = Some(vdi.name.to_string());
                    }
                } else {
                    // captured variable of a closure: _1.<i> or (*_1).<i>
                    upvar_names.push(J::Obj(vec![
                        ("name", s(vdi.name.to_string())),
                        ("place", self.place(p)),
                    ]));
                }
            }
        }
        let mut locals = Vec::new();
        for (l, d) in body.local_decls.iter_enumerated() {
            locals.push(J::Obj(vec![
                ("ty", s(ty_s(d.ty))),
                ("name", match &names[l.index()] {
                    Some(n) => s(n.clone()),
                    None => J::Null,
                }),
            ]));
        }
        o.push(("locals", J::Arr(locals)));
        o.push(("upvars", J::Arr(upvar_names)));
        // blocks
        let mut blocks = Vec::new();
        for (_bb, data) in body.basic_blocks.iter_enumerated() {
            let mut stmts = Vec::new();
            for st in &data.statements {
                match &st.kind {
                    StatementKind::Assign(b) => {
                        let (p, rv) = &**b;
                        stmts.push(J::Obj(vec![
                            ("k", s("assign")),
                            ("dst", self.place(p)),
                            ("rv", self.rvalue(rv)),
                            ("at", loc(tcx, st.source_info.span)),
                            ("exp", expn(st.source_info.span)),
                        ]));
                    }
                    StatementKind::SetDiscriminant { place, variant_index } => {
                        stmts.push(J::Obj(vec![
                            ("k", s("setdiscr")),
                            ("dst", self.place(place)),
                            ("vi", J::Int(variant_index.index() as i128)),
                        ]));
                    }
                    _ => {}
                }
            }
            let term = match &data.terminator {
                Some(t) => self.terminator(t),
                None => J::Null,
            };
            blocks.push(J::Obj(vec![
                ("cleanup", J::Bool(data.is_cleanup)),
                ("stmts", J::Arr(stmts)),
                ("term", term),
            ]));
        }
        o.push(("blocks", J::Arr(blocks)));
        // promoted constants as miniature bodies
        if !matches!(kind, DefKind::Closure) || true {
            let promoted = tcx.promoted_mir(did);
            let mut ps = Vec::new();
            for pb in promoted.iter() {
                let pcx = Cx { tcx, body: pb, did };
                ps.push(pcx.dump_promoted());
            }
            o.push(("promoted", J::Arr(ps)));
        }
        J::Obj(o)
    }

    fn dump_promoted(&self) -> J {
        let tcx = self.tcx;
        let body = self.body;
        let mut locals = Vec::new();
        for (_l, d) in body.local_decls.iter_enumerated() {
            locals.push(J::Obj(vec![("ty", s(ty_s(d.ty))), ("name", J::Null)]));
        }
        let mut blocks = Vec::new();
        for (_bb, data) in body.basic_blocks.iter_enumerated() {
            let mut stmts = Vec::new();
            for st in &data.statements {
                if let StatementKind::Assign(b) = &st.kind {
                    let (p, rv) = &**b;
                    stmts.push(J::Obj(vec![
                        ("k", s("assign")),
                        ("dst", self.place(p)),
                        ("rv", self.rvalue(rv)),
                        ("at", loc(tcx, st.source_info.span)),
                        ("exp", expn(st.source_info.span)),
                    ]));
                }
            }
            let term = match &data.terminator {
                Some(t) => self.terminator(t),
                None => J::Null,
            };
            blocks.push(J::Obj(vec![("cleanup", J::Bool(data.is_cleanup)), ("stmts", J::Arr(stmts)), ("term", term)]));
        }
        J::Obj(vec![("locals", J::Arr(locals)), ("blocks", J::Arr(blocks)), ("arg_count", J::Int(0))])
    }
}

struct Cb;

impl rustc_driver::Callbacks for Cb {
    fn after_analysis<'tcx>(
        &mut self,
        _c: &rustc_interface::interface::Compiler,
        tcx: TyCtxt<'tcx>,
    ) -> Compilation {
        let krate = tcx.crate_name(LOCAL_CRATE).to_string();
        let wanted = std::env::var("ITV_CRATES").unwrap_or_else(|_| "in_toto".to_string());
        if !wanted.split(',').any(|w| w == krate) {
            return Compilation::Continue;
        }
        let out_dir = match std::env::var("ITV_OUT") {
            Ok(d) => d,
            Err(_) => return Compilation::Continue,
        };

        // ---- ADTs and impls
        let mut adts = Vec::new();
        let mut impls = Vec::new();
        let mut traits = Vec::new();
        for id in tcx.hir_free_items() {
            let item = tcx.hir_item(id);
            let did = item.owner_id.to_def_id();
            match &item.kind {
                rustc_hir::ItemKind::Struct(..)
                | rustc_hir::ItemKind::Enum(..)
                | rustc_hir::ItemKind::Union(..) => {
                    let def = tcx.adt_def(did);
                    let mut variants = Vec::new();
                    for v in def.variants() {
                        let mut fields = Vec::new();
                        for f in &v.fields {
                            let fty = tcx.type_of(f.did).instantiate_identity().skip_norm_wip();
                            fields.push(J::Obj(vec![
                                ("name", s(f.name.to_string())),
                                ("ty", s(ty_s(fty))),
                                ("pub", J::Bool(f.vis.is_public())),
                                ("vis", s(format!("{:?}", f.vis))),
                            ]));
                        }
                        variants.push(J::Obj(vec![
                            ("name", s(v.name.to_string())),
                            ("fields", J::Arr(fields)),
                        ]));
                    }
                    adts.push(J::Obj(vec![
                        ("key", s(key(tcx, did))),
                        ("path", s(tcx.def_path_str(did))),
                        ("kind", s(format!("{:?}", def.adt_kind()))),
                        ("pub", J::Bool(tcx.visibility(did).is_public())),
                        ("at", loc(tcx, item.span)),
                        ("exp", expn(item.span)),
                        ("variants", J::Arr(variants)),
                    ]));
                }
                rustc_hir::ItemKind::Impl(..) => {
                    let self_ty = tcx.type_of(did).instantiate_identity().skip_norm_wip();
                    let mut o: Vec<(&'static str, J)> = vec![
                        ("key", s(key(tcx, did))),
                        ("self_ty", s(ty_s(self_ty))),
                        ("at", loc(tcx, item.span)),
                        ("exp", expn(item.span)),
                    ];
                    if let ty::Adt(d, _) = self_ty.kind() {
                        o.push(("self_adt", s(tcx.def_path_str(d.did()))));
                    }
                    if let Some(tr) = tcx.impl_opt_trait_ref(did) {
                        let tr = tr.instantiate_identity().skip_norm_wip();
                        o.push(("trait", s(tcx.def_path_str(tr.def_id))));
                        o.push(("trait_full", s(format!("{}", tr))));
                    }
                    let mut methods = Vec::new();
                    for ai in tcx.associated_items(did).in_definition_order() {
                        if ai.is_fn() {
                            methods.push(J::Obj(vec![
                                ("name", s(ai.name().to_string())),
                                ("key", s(key(tcx, ai.def_id))),
                                ("pub", J::Bool(tcx.visibility(ai.def_id).is_public())),
                            ]));
                        }
                    }
                    o.push(("methods", J::Arr(methods)));
                    impls.push(J::Obj(o));
                }
                rustc_hir::ItemKind::Trait { .. } => {
                    let mut methods = Vec::new();
                    for ai in tcx.associated_items(did).in_definition_order() {
                        if ai.is_fn() {
                            methods.push(J::Obj(vec![
                                ("name", s(ai.name().to_string())),
                                ("key", s(key(tcx, ai.def_id))),
                                ("has_default", J::Bool(ai.defaultness(tcx).has_value())),
                            ]));
                        }
                    }
                    traits.push(J::Obj(vec![
                        ("key", s(key(tcx, did))),
                        ("path", s(tcx.def_path_str(did))),
                        ("methods", J::Arr(methods)),
                    ]));
                }
                _ => {}
            }
        }

        // ---- function bodies
        let mut fns = Vec::new();
        for ldid in tcx.hir_body_owners() {
            let did = ldid.to_def_id();
            let kind = tcx.def_kind(did);
            if !matches!(kind, DefKind::Fn | DefKind::AssocFn | DefKind::Closure) {
                continue;
            }
            let body = tcx.optimized_mir(did);
            let cx = Cx { tcx, body, did };
            fns.push(cx.dump());
        }

        let doc = J::Obj(vec![
            ("crate", s(krate.clone())),
            ("nonce", s(std::env::var("ITV_NONCE").unwrap_or_default())),
            ("rustc", s(option_env!("CFG_VERSION").unwrap_or("nightly").to_string())),
            ("debug_assertions", J::Bool(tcx.sess.opts.debug_assertions)),
            ("overflow_checks", J::Bool(tcx.sess.overflow_checks())),
            ("adts", J::Arr(adts)),
            ("impls", J::Arr(impls)),
            ("traits", J::Arr(traits)),
            ("fns", J::Arr(fns)),
        ]);
        let mut out = String::new();
        doc.write(&mut out);
        let path = format!("{}/{}.facts.json", out_dir, krate);
        let tmp = format!("{}.tmp.{}", path, std::process::id());
        std::fs::write(&tmp, out.as_bytes()).expect("itv-facts: cannot write facts");
        std::fs::rename(&tmp, &path).expect("itv-facts: cannot move facts into place");
        Compilation::Continue
    }
}

fn main() {
    let mut args: Vec<String> = std::env::args().collect();
    // RUSTC_WORKSPACE_WRAPPER: argv[1] is the path of the real rustc
    if args.len() > 1 && (args[1].ends_with("rustc") || args[1].contains("/rustc")) {
        args.remove(1);
    }
    rustc_driver::run_compiler(&args, &mut Cb);
}
