"""Call graph over the local crate (resolved callees, dyn dispatch, closures, callback rule) and
the REGION inliner that builds a super-graph of a public anchor with its private callees."""
import copy
import re
from .core import Body, callee_name, norm, op_place

_IDENT = re.compile(r"[A-Za-z_][A-Za-z0-9_]*(?:::[A-Za-z_][A-Za-z0-9_]*)*")


class CallGraph:
    def __init__(self, fx):
        self.fx = fx
        self.edges = {k: set() for k in fx.fns}
        self.why = {}
        self.ext = {k: [] for k in fx.fns}          # key -> [(bb, term)] non-local calls
        self.sites = {k: [] for k in fx.fns}        # key -> [(bb, term, callee_key)] local calls
        # trait name -> [(impl, method name -> key)]
        self.trait_impls = {}
        self.adt_trait_methods = {}  # adt path -> set(method keys in impls of *any* trait)
        for im in fx.impls:
            tr = im.get("trait")
            if tr:
                self.trait_impls.setdefault(tr, []).append(im)
                adt = im.get("self_adt")
                if adt:
                    s = self.adt_trait_methods.setdefault(adt, set())
                    for m in im["methods"]:
                        s.add(m["key"])
        local_adts = set(fx.adts)
        trait_method_owner = {}
        for tr in fx.traits:
            for m in tr["methods"]:
                trait_method_owner[m["key"]] = (tr["path"], m["name"])
        for k, f in fx.fns.items():
            # closures: parent -> closure (conservative)
            if f["kind"] == "Closure":
                self._add(f["parent"], k, "closure")
            for bi, b in enumerate(f["blocks"]):
                if b["cleanup"]:
                    continue
                t = b["term"]
                if not t or t["k"] != "call":
                    continue
                rk = t.get("resolved_key")
                ck = t.get("callee_key")
                kind = t.get("resolved_kind", "")
                tgt = None
                if kind == "Virtual" or (rk is None and ck in trait_method_owner and ck not in fx.fns) \
                        or (kind == "Virtual" and ck in trait_method_owner):
                    # dyn call (or unresolved call to a local trait's method): all local impls
                    owner = trait_method_owner.get(ck)
                    if owner:
                        for im in self.trait_impls.get(owner[0], []):
                            for m in im["methods"]:
                                if m["name"] == owner[1] and m["key"] in fx.fns:
                                    self._add(k, m["key"], "dyn")
                                    self.sites[k].append((bi, t, m["key"]))
                        if ck in fx.fns:  # default body
                            self._add(k, ck, "dyn-default")
                    else:
                        self.ext[k].append((bi, t))
                    continue
                if rk is not None and rk in fx.fns:
                    tgt = rk
                elif ck is not None and ck in fx.fns:
                    tgt = ck
                if tgt is not None:
                    self._add(k, tgt, "call")
                    self.sites[k].append((bi, t, tgt))
                else:
                    self.ext[k].append((bi, t))
                    # callback rule: generic arguments mentioning local ADTs
                    gens = " ".join(t.get("generics", []))
                    for m in _IDENT.findall(gens):
                        if m in local_adts:
                            for mk in self.adt_trait_methods.get(m, ()):
                                if mk in fx.fns:
                                    self._add(k, mk, "callback:%s:%s" % (t.get("callee_crate", "?"), m))
                    # closures passed as arguments are covered by parent->closure edges
                    # function items passed as arguments
                for a in t["args"]:
                    c = a.get("const")
                    if c and c.get("fn_key") in fx.fns:
                        self._add(k, c["fn_key"], "fnptr")
            # function items mentioned anywhere in statements (passed around as values)
            for b in f["blocks"]:
                for st in b["stmts"]:
                    if st["k"] != "assign":
                        continue
                    rv = st["rv"]
                    ops = []
                    if rv["k"] in ("use", "cast"):
                        ops = [rv["op"]]
                    elif rv["k"] == "agg":
                        ops = rv["ops"]
                    for o in ops:
                        c = o.get("const")
                        if c and c.get("fn_key") in fx.fns:
                            self._add(k, c["fn_key"], "fnptr")

    def _add(self, a, b, why):
        if a in self.edges:
            self.edges[a].add(b)
            old = self.why.get((a, b))
            if old is None or old.startswith("callback:"):
                self.why[(a, b)] = why

    def reachable(self, roots, stop=()):
        seen = {}
        stack = [(r, None) for r in roots]
        while stack:
            k, parent = stack.pop()
            if k in seen or k not in self.edges:
                continue
            seen[k] = parent
            if k in stop:
                continue
            for n in self.edges[k]:
                if n not in seen:
                    stack.append((n, k))
        return seen

    def chain(self, seen, k):
        out = []
        while k is not None:
            out.append(self.fx.fns[k]["path"])
            k = seen.get(k)
        return list(reversed(out))

    def sccs(self, nodes, edge_ok=None):
        """Tarjan over the sub-graph induced by `nodes`; returns SCCs that contain a cycle.
        edge_ok(a, b, why) filters edges."""
        edges_of = (lambda v: [w for w in self.edges.get(v, ()) if edge_ok(v, w, self.why.get((v, w), ""))]) \
            if edge_ok else (lambda v: self.edges.get(v, ()))
        index = {}
        low = {}
        onstack = set()
        stack = []
        out = []
        counter = [0]
        import sys
        sys.setrecursionlimit(10000)

        def strong(v):
            index[v] = low[v] = counter[0]
            counter[0] += 1
            stack.append(v)
            onstack.add(v)
            for w in edges_of(v):
                if w not in nodes:
                    continue
                if w not in index:
                    strong(w)
                    low[v] = min(low[v], low[w])
                elif w in onstack:
                    low[v] = min(low[v], index[w])
            if low[v] == index[v]:
                comp = []
                while True:
                    w = stack.pop()
                    onstack.discard(w)
                    comp.append(w)
                    if w == v:
                        break
                if len(comp) > 1 or v in edges_of(v):
                    out.append(comp)
        for v in nodes:
            if v not in index:
                strong(v)
        return out

    def ext_reach(self, keys, names):
        """Does any function in `keys` call an external callee whose normalised name is in `names`?
        Returns list of (fn key, bb, term)."""
        out = []
        for k in keys:
            for (bi, t) in self.ext.get(k, ()):
                if callee_name(t) in names:
                    out.append((k, bi, t))
        return out


# ---------------------------------------------------------------------------------------------
# REGION inliner
# ---------------------------------------------------------------------------------------------
def _shift(node, loff, boff):
    """Deep-copy a MIR JSON node shifting local indices by loff and block indices by boff."""
    if isinstance(node, dict):
        if "l" in node and "p" in node and isinstance(node["p"], list):
            return {"l": node["l"] + loff, "p": [_shift_proj(e, loff) for e in node["p"]]}
        out = {}
        for k, v in node.items():
            if k in ("target", "otherwise", "unwind") and isinstance(v, int):
                out[k] = v + boff
            elif k == "arms":
                out[k] = [[a, b + boff] for a, b in v]
            else:
                out[k] = _shift(v, loff, boff)
        return out
    if isinstance(node, list):
        return [_shift(v, loff, boff) for v in node]
    return node


def _shift_proj(e, loff):
    if isinstance(e, dict) and "idx" in e:
        return {"idx": e["idx"] + loff}
    return e


def split_generics(ty):
    """Top-level generic arguments of `Path<A, B<C, D>, E>` -> ['A', 'B<C, D>', 'E']."""
    i = ty.find("<")
    if i < 0 or not ty.endswith(">"):
        return []
    out, depth, cur = [], 0, ""
    for ch in ty[i + 1:-1]:
        if ch in "<([":
            depth += 1
        elif ch in ">)]":
            depth -= 1
        if ch == "," and depth == 0:
            out.append(cur.strip())
            cur = ""
        else:
            cur += ch
    if cur.strip():
        out.append(cur.strip())
    return out


def default_inline_policy(fx):
    """Inline local, non-public, non-trait-impl plain functions and inherent methods."""
    def pol(fn):
        if fn["kind"] not in ("Fn", "AssocFn"):
            return False
        if fn.get("pub"):
            return False
        if fn.get("impl_trait"):
            return False
        return True
    return pol


def vis_kind(fn):
    v = fn.get("vis", "")
    if v == "Public":
        return "pub"
    if v.startswith("Restricted(DefId(0:0 "):
        return "crate"
    return "private"


def private_only_policy(fx):
    """Inline only module-private plain functions / inherent methods (crate-visible helpers stay calls)."""
    def pol(fn):
        if fn["kind"] not in ("Fn", "AssocFn") or fn.get("impl_trait"):
            return False
        return vis_kind(fn) == "private"
    return pol


def inline_region(fx, root_key, depth=4, policy=None, desugar=True, skip_root_sites=()):
    """Build a synthetic function (same JSON shape) in which calls to local functions selected by
    `policy` are replaced by the callee's CFG.  Recursion is cut (the call stays a call)."""
    policy = policy or default_inline_policy(fx)
    root = fx.fns[root_key]
    new = {k: v for k, v in root.items() if k not in ("blocks", "locals")}
    new["locals"] = [dict(l) for l in root["locals"]]
    new["blocks"] = []
    new["inlined"] = []

    def emit(fn, loff, stack, d, ret_dst=None, ret_target=None, inst=""):
        """Append fn's blocks (shifted); returns block offset."""
        boff = len(new["blocks"])
        n = len(fn["blocks"])
        # reserve
        for _ in range(n):
            new["blocks"].append(None)
        for bi, b in enumerate(fn["blocks"]):
            nb = _shift(b, loff, boff)
            nb["origin"] = fn["path"]
            nb["origin_key"] = fn["key"]
            nb["origin_bb"] = bi
            nb["inst"] = inst
            nb["ret_local"] = loff
            new.setdefault("ret_locals", set()).add(loff)
            new["blocks"][boff + bi] = nb
        # post-process terminators of this instance
        for bi in range(n):
            nb = new["blocks"][boff + bi]
            t = nb["term"]
            if nb["cleanup"] or not t:
                continue
            if t["k"] == "return" and ret_target is not None:
                # _0 of this instance is local loff+0
                nb["stmts"].append({"k": "assign", "dst": ret_dst,
                                    "rv": {"k": "use", "op": {"move": {"l": loff, "p": []}}},
                                    "at": t["at"], "exp": None, "synthetic": "return"})
                nb["term"] = {"k": "goto", "target": ret_target, "at": t["at"], "exp": None,
                              "synthetic": "return"}
                continue
            if t["k"] != "call" or d <= 0:
                continue
            if fn is root and bi in skip_root_sites:
                continue        # this call of the root function is deliberately left a call (one sibling instance at a time)
            if desugar and t.get("target") is not None and callee_name(t) in _DESUGAR and \
                    _desugar(fn, bi, nb, t, loff, boff, stack, d, inst):
                continue
            ck = t.get("resolved_key") or t.get("callee_key")
            direct = None
            if desugar and norm(t.get("trait")) in _FN_TRAITS and len(t["args"]) == 2 and t.get("target") is not None:
                # `let is_ok = |x| ..; is_ok(a)`: a closure bound to a local and called directly - the call is the closure's body
                direct = _direct_closure(boff, n, t)
            if direct is not None and direct[0]["key"] not in stack:
                callee, call_args = direct
                ck = callee["key"]
                t = dict(t, args=call_args)
            else:
                if ck is None or ck not in fx.fns or ck in stack:
                    continue
                if t.get("resolved_kind") == "Virtual":
                    continue
                callee = fx.fns[ck]
                if not policy(callee) or t.get("target") is None:
                    continue
            if len(t["args"]) != callee["arg_count"]:
                continue
            # allocate callee locals
            cl_off = len(new["locals"])
            for l in callee["locals"]:
                new["locals"].append(dict(l))
            n_before = len(new["blocks"])
            subst = _generic_subst(callee, t)
            cinst = inst + "/" + callee["path"].split("::")[-1] + "@" + str(boff + bi)
            # bind parameters
            for ai, a in enumerate(t["args"]):
                nb["stmts"].append({"k": "assign", "dst": {"l": cl_off + 1 + ai, "p": []},
                                    "rv": {"k": "use", "op": a}, "at": t["at"], "exp": None,
                                    "synthetic": "arg"})
            cboff = emit(callee, cl_off, stack | {ck}, (d if callee["kind"] == "Closure" else d - 1), ret_dst=t["dst"],
                         ret_target=t["target"], inst=cinst)
            if subst:
                _apply_subst(new, subst, cl_off, len(callee["locals"]), n_before)
            new["inlined"].append({"callee": callee["path"], "at_block": boff + bi, "inst": cinst,
                                   "site": t["at"]})
            nb["term"] = {"k": "goto", "target": cboff, "at": t["at"], "exp": None,
                          "synthetic": "inlined-call", "callee": t.get("callee"),
                          "callee_key": ck}
        return boff

    def _direct_closure(boff, n, t):
        """(closure fn, [env operand, arg operands..]) for `Fn::call(&c, (a, b))` where c is a local of this instance whose one
        definition is a closure expression; None otherwise."""
        def single(l):
            # the whole region built so far: a closure handed to an inlined generic helper (`each(items, |x| ..)`) is defined in
            # the caller's instance and reaches the helper's parameter through the synthetic argument binding
            found = []
            for blk in new["blocks"]:
                if blk is None or blk["cleanup"]:
                    continue
                for st in blk["stmts"]:
                    if st["k"] == "assign" and st["dst"]["l"] == l and not st["dst"]["p"]:
                        found.append(st["rv"])
                tt = blk["term"]
                if tt and tt["k"] == "call" and tt["dst"]["l"] == l and not tt["dst"]["p"]:
                    found.append(None)
            return found[0] if len(found) == 1 else None
        p0 = op_place(t["args"][0])
        p1 = op_place(t["args"][1])
        if p0 is None or p0["p"] or p1 is None or p1["p"]:
            return None
        l = p0["l"]
        rv = None
        for _ in range(5):
            rv = single(l)
            if rv is None:
                return None
            if rv["k"] == "agg" and rv.get("agg") == "closure":
                break
            if rv["k"] == "ref" and not rv["place"]["p"]:
                l = rv["place"]["l"]
            elif rv["k"] == "use" and op_place(rv["op"]) is not None and not op_place(rv["op"])["p"]:
                l = op_place(rv["op"])["l"]
            else:
                return None
        if rv is None or not (rv["k"] == "agg" and rv.get("agg") == "closure"):
            return None
        g = fx.fns.get(rv.get("closure_key"))
        tv = single(p1["l"])
        if g is None or tv is None or not (tv["k"] == "agg" and tv.get("agg") == "tuple"):
            return None
        env_is_ref = g["locals"][1]["ty"].startswith("&")
        arg_is_ref = ((t.get("arg_tys") or [""])[0]).startswith("&")
        if env_is_ref != arg_is_ref or g["arg_count"] != 1 + len(tv["ops"]):
            return None
        return g, [t["args"][0]] + list(tv["ops"])

    # ---- internal iteration and Option / Result combinators taking a closure (or a local fn item) are rewritten into the
    # ---- control flow they stand for, with the closure body inlined: `it.for_each(f)` becomes the loop `while let
    # ---- Some(x) = it.next() { f(x) }`, `opt.map(f)` a match on `opt`, ...  Rules about loops, guards and dominance then see
    # ---- one shape for both spellings.
    def _closure_of(fn, op):
        """(callee fn, env local or None) for a closure / fn-item operand of the un-shifted function `fn`."""
        if "const" in op:
            k = op["const"].get("fn_key")
            g = fx.fns.get(k) if k else None
            if g is not None and g["kind"] in ("Fn", "AssocFn") and policy(g):
                return g, None
            if k and "{constructor#" in k:
                # a tuple-struct / enum-variant constructor used as a function: `x.map(Wrapper)`
                pth = op["const"].get("fn") or ""
                if pth in fx.adts and len(fx.adts[pth]["variants"]) == 1:
                    return {"ctor": (pth, fx.adts[pth]["variants"][0]["name"])}, None
                par, _, var = pth.rpartition("::")
                if par in fx.adts and any(v["name"] == var for v in fx.adts[par]["variants"]):
                    return {"ctor": (par, var)}, None
            return None
        pl = op.get("move") or op.get("copy")
        if pl is None or pl["p"]:
            return None
        defs = []
        for blk in fn["blocks"]:
            for st in blk["stmts"]:
                if st["k"] == "assign" and st["dst"]["l"] == pl["l"] and not st["dst"]["p"]:
                    defs.append(st)
            tt = blk["term"]
            if tt and tt["k"] == "call" and tt["dst"]["l"] == pl["l"] and not tt["dst"]["p"]:
                defs.append(None)
        if len(defs) == 1 and defs[0] is not None and defs[0]["rv"].get("agg") == "closure":
            g = fx.fns.get(defs[0]["rv"]["closure_key"])
            if g is not None:
                return g, pl["l"]
        return None

    _IDENT_ADAPT = {"std::iter::Iterator::cloned", "std::iter::Iterator::copied", "std::iter::Iterator::by_ref",
                    "std::iter::IntoIterator::into_iter"}

    def _stages(fn, op, stack):
        """Lazy adaptors between the source iterator and the consumer: ([(kind, callee, env local, call term)], source operand)."""
        stages = []
        for _ in range(6):
            pl = op.get("move") or op.get("copy")
            if pl is None or pl["p"]:
                break
            defs = []
            for blk in fn["blocks"]:
                if blk["cleanup"]:
                    continue
                for st in blk["stmts"]:
                    if st["k"] == "assign" and st["dst"]["l"] == pl["l"]:
                        defs.append(("assign", st))
                tt = blk["term"]
                if tt and tt["k"] == "call" and tt["dst"]["l"] == pl["l"]:
                    defs.append(("call", tt))
            if len(defs) != 1:
                break
            kind, node = defs[0]
            if kind == "assign":
                if not node["dst"]["p"] and node["rv"]["k"] == "use" and (node["rv"]["op"].get("move") or node["rv"]["op"].get("copy")):
                    op = node["rv"]["op"]
                    continue
                if not node["dst"]["p"] and node["rv"]["k"] == "ref" and not node["rv"]["place"]["p"]:
                    op = {"copy": node["rv"]["place"]}
                    continue
                break
            n = callee_name(node)
            if n in ("std::iter::Iterator::cloned", "std::iter::Iterator::copied") and len(node["args"]) == 1 and stages is not None:
                op = node["args"][0]        # element-wise copies: the element's provenance is unchanged
                continue
            if n == "std::iter::Iterator::take" and len(node["args"]) == 2:
                stages.append(("take", None, None, node))
                op = node["args"][0]
                continue
            if n in ("std::iter::Iterator::map", "std::iter::Iterator::filter", "std::iter::Iterator::filter_map") and len(node["args"]) == 2:
                co = _closure_of(fn, node["args"][1])
                if co is None or co[0]["key"] in stack or co[0]["arg_count"] != (2 if co[1] is not None else 1):
                    break
                stages.append((n.split("::")[-1], co[0], co[1], node))
                op = node["args"][0]
                continue
            break
        stages.reverse()
        return stages, op

    def _desugar(fn, bi, nb, t, loff, boff, stack, d, inst):
        name = callee_name(t)
        kind = _DESUGAR[name]
        if len(t["args"]) != (1 if kind in ("collect", "count") else (3 if kind == "map_or" else 2)):
            return False
        ext_stages = None
        coll_res = False
        _COLLS = (("BTreeSet<", "std::collections::BTreeSet"), ("HashSet<", "std::collections::HashSet"), ("Vec<", "std::vec::Vec"),
                  ("BTreeMap<", "std::collections::BTreeMap"), ("HashMap<", "std::collections::HashMap"))
        if kind == "count":
            ext_stages = _stages(fn, fn["blocks"][bi]["term"]["args"][0], stack)
            if not any(sk in ("map", "filter", "filter_map") for (sk, _c, _e, _n) in ext_stages[0]):
                return False
            callee, env = None, None
        elif kind == "collect":
            # iter.map(f).filter(p).collect::<C>() / ::<Result<C, E>>(): a loop filling a fresh collection
            gens = [g for g in t.get("generics", []) if not g.startswith("'")]
            tgt = gens[-1] if gens else ""
            coll_res = tgt.startswith("std::result::Result<")
            inner = tgt[len("std::result::Result<"):] if coll_res else tgt
            cty = None
            for (pat, base) in _COLLS:
                if inner.startswith(base + "<"):
                    cty = base
            if cty is None:
                return False
            ins = cty + ("::push" if cty.endswith("Vec") else "::insert")
            ext_stages = _stages(fn, fn["blocks"][bi]["term"]["args"][0], stack)
            if not any(sk in ("map", "filter", "filter_map") for (sk, _c, _e, _n) in ext_stages[0]):
                return False
            callee, env = None, None
        elif kind == "extend":
            # coll.extend(iter.filter(p).map(f)..): a loop inserting every element that passes the adaptors
            recv_ty = (t.get("arg_tys") or [""])[0]
            ins = None
            for (pat, nm) in (("BTreeSet<", "std::collections::BTreeSet::insert"), ("HashSet<", "std::collections::HashSet::insert"),
                              ("Vec<", "std::vec::Vec::push"), ("BTreeMap<", "std::collections::BTreeMap::insert"),
                              ("HashMap<", "std::collections::HashMap::insert")):
                if ("::" + pat) in recv_ty or recv_ty.lstrip("&mut ").startswith(pat):
                    ins = nm
                    break
            if ins is None:
                return False
            ext_stages = _stages(fn, fn["blocks"][bi]["term"]["args"][1], stack)
            if not any(sk in ("map", "filter", "filter_map") for (sk, _c, _e, _n) in ext_stages[0]):
                return False
            callee, env = None, None
        else:
            co = _closure_of(fn, fn["blocks"][bi]["term"]["args"][1 if kind != "map_or" else 2])
            if co is None:
                return False
            callee, env = co
            if "ctor" in callee:
                if kind != "map":
                    return False
                # opt.map(Ctor) / res.map(Ctor): Some(x) => Some(Ctor(x))
                is_res = name.startswith("std::result::")
                adt_p, var = callee["ctor"]
                at0 = t["at"]
                def _l(ty):
                    new["locals"].append({"ty": ty, "name": None})
                    return len(new["locals"]) - 1
                def _b():
                    new["blocks"].append({"origin": fn["path"], "origin_key": fn["key"], "origin_bb": bi, "inst": inst, "ret_local": loff,
                                          "cleanup": False, "synthetic": "desugar", "stmts": [], "term": None})
                    return len(new["blocks"]) - 1
                def _a(blk, dst_, rv):
                    (new["blocks"][blk] if isinstance(blk, int) else blk)["stmts"].append(
                        {"k": "assign", "dst": dst_ if isinstance(dst_, dict) else {"l": dst_, "p": []}, "rv": rv, "at": at0, "exp": None, "synthetic": "desugar"})
                W = "std::result::Result" if is_res else "std::option::Option"
                okv, vi = ("Ok", 0) if is_res else ("Some", 1)
                o = _l((t.get("arg_tys") or ["_"])[0])
                _a(nb, o, {"k": "use", "op": t["args"][0]})
                dl = _l("isize")
                _a(nb, dl, {"k": "discr", "place": {"l": o, "p": []}, "pty": (t.get("arg_tys") or ["_"])[0], "adt": W,
                            "variants": [[0, "Ok"], [1, "Err"]] if is_res else [[0, "None"], [1, "Some"]]})
                Bd, X = _b(), _b()
                nb["term"] = {"k": "switch", "discr": {"move": {"l": dl, "p": []}}, "discr_ty": "isize", "arms": [[vi, Bd]], "otherwise": X,
                              "at": at0, "exp": None, "synthetic": "desugared-call", "callee": t.get("callee")}
                w = _l(adt_p)
                payload = {"move": {"l": o, "p": [{"d": okv, "vi": vi}, {"f": "0", "i": 0, "of": W + "::" + okv, "ty": "_"}]}}
                _a(Bd, w, {"k": "agg", "agg": "adt", "adt": adt_p, "variant": var, "fields": ["0"], "ops": [payload]})
                _a(Bd, t["dst"], {"k": "agg", "agg": "adt", "adt": W, "variant": okv, "fields": ["0"], "ops": [{"move": {"l": w, "p": []}}]})
                new["blocks"][Bd]["term"] = {"k": "goto", "target": t["target"], "at": at0, "exp": None, "synthetic": "desugar"}
                if is_res:
                    _a(X, t["dst"], {"k": "agg", "agg": "adt", "adt": W, "variant": "Err", "fields": ["0"],
                                     "ops": [{"move": {"l": o, "p": [{"d": "Err", "vi": 1}, {"f": "0", "i": 0, "of": W + "::Err", "ty": "_"}]}}]})
                else:
                    _a(X, t["dst"], {"k": "agg", "agg": "adt", "adt": W, "variant": "None", "fields": [], "ops": []})
                new["blocks"][X]["term"] = {"k": "goto", "target": t["target"], "at": at0, "exp": None, "synthetic": "desugar"}
                return True
            if callee["key"] in stack:
                return False
            want_args = 2 if env is not None else 1
            if callee["arg_count"] != want_args:
                return False
        at = t["at"]
        origin = {"origin": fn["path"], "origin_key": fn["key"], "origin_bb": bi, "inst": inst, "ret_local": loff, "cleanup": False,
                  "synthetic": "desugar"}

        def local(ty, name=None):
            new["locals"].append({"ty": ty, "name": name})
            return len(new["locals"]) - 1

        def block():
            new["blocks"].append(dict(origin, stmts=[], term=None))
            return len(new["blocks"]) - 1

        def assign(bidx_or_blk, dst, rv, syn="desugar"):
            blk = new["blocks"][bidx_or_blk] if isinstance(bidx_or_blk, int) else bidx_or_blk
            blk["stmts"].append({"k": "assign", "dst": dst if isinstance(dst, dict) else {"l": dst, "p": []}, "rv": rv, "at": at, "exp": None,
                                 "synthetic": syn})

        def goto(bidx, target):
            new["blocks"][bidx]["term"] = {"k": "goto", "target": target, "at": at, "exp": None, "synthetic": "desugar"}

        def use(op):
            return {"k": "use", "op": op}

        def mv(l, p=None):
            return {"move": {"l": l, "p": p or []}}

        def variant_field(l, variant, vi, of):
            return {"l": l, "p": [{"d": variant, "vi": vi}, {"f": "0", "i": 0, "of": of + "::" + variant, "ty": "_"}]}

        def adt(adt_name, variant, ops):
            return {"k": "agg", "agg": "adt", "adt": adt_name, "variant": variant, "fields": ["0"] if ops else [], "ops": ops}

        def const_bool(v):
            return use({"const": {"ty": "bool", "int": 1 if v else 0, "repr": "true" if v else "false"}})

        unit = use({"const": {"ty": "()", "repr": "()"}})
        OPT, RES = "std::option::Option", "std::result::Result"
        OPT_V, RES_V = [[0, "None"], [1, "Some"]], [[0, "Ok"], [1, "Err"]]
        arg_ty = (t.get("arg_tys") or ["_"])[0]
        dst, target = t["dst"], t["target"]
        # callee locals
        cl_off = len(new["locals"])
        if callee is not None:
            for l in callee["locals"]:
                new["locals"].append(dict(l))
            cinst = inst + "/" + callee["path"].split("::")[-1] + "@" + str(boff + bi)
        p_item = cl_off + (2 if env is not None else 1)

        def bind_env(bidx):
            if env is None:
                return
            ety = callee["locals"][1]["ty"]
            src = {"l": env + loff, "p": []}
            if ety.startswith("&mut "):
                rv = {"k": "ref", "mut": True, "place": src}
            elif ety.startswith("&"):
                rv = {"k": "ref", "mut": False, "place": src}
            else:
                rv = use({"move": src})
            assign(bidx, cl_off + 1, rv, "arg")

        def emit_callee(ret_dst, ret_target):
            cb = emit(callee, cl_off, stack | {callee["key"]}, (d if callee["kind"] == "Closure" else d - 1), ret_dst=ret_dst, ret_target=ret_target, inst=cinst)
            new["inlined"].append({"callee": callee["path"], "at_block": boff + bi, "inst": cinst, "site": at, "desugared": name})
            return cb

        def switch(bidx_or_blk, l, ty, arms, otherwise):
            blk = new["blocks"][bidx_or_blk] if isinstance(bidx_or_blk, int) else bidx_or_blk
            blk["term"] = {"k": "switch", "discr": mv(l), "discr_ty": ty, "arms": arms, "otherwise": otherwise, "at": at, "exp": None,
                           "synthetic": "desugar"}

        if kind in ("for_each", "any", "all", "find", "try_for_each", "extend", "collect", "count"):
            own = {callee["key"]} if callee is not None else set()
            stages, src_op = ext_stages if ext_stages is not None else _stages(fn, fn["blocks"][bi]["term"]["args"][0], stack | own)
            if stages:
                src_op = _shift(src_op, loff, boff)
                arg_ty = "_"
                for blk0 in fn["blocks"]:
                    tt0 = blk0["term"]
                    if tt0 and tt0["k"] == "call" and tt0 is stages[0][3]:
                        arg_ty = (tt0.get("arg_tys") or ["_"])[0]
            elif kind == "extend":
                src_op = _shift(src_op, loff, boff)
                arg_ty = (t.get("arg_tys") or ["_", "_"])[1]
            elif kind in ("collect", "count"):
                src_op = _shift(src_op, loff, boff)
            else:
                src_op = t["args"][0]
            it = local(arg_ty)
            assign(nb, it, use(src_op))
            r = local("&mut " + arg_ty)
            tmp = local(OPT + "<_>")
            dl = local("isize")
            H, S, Bd, A, X = block(), block(), block(), block(), block()
            def binop(op_, a_, b_):
                return {"k": "binop", "op": op_, "a": a_, "b": b_}
            cusize = lambda v: {"const": {"ty": "usize", "int": v, "repr": "%d_usize" % v}}
            take_stage = [st_ for st_ in stages if st_[0] == "take"]
            H0 = H
            if take_stage:
                # `take(n)`: the source is no longer polled once n elements have passed the take stage
                tk = local("usize")
                assign(nb, tk, use(cusize(0)))
                n_op = _shift(take_stage[0][3]["args"][1], loff, boff)
                H0 = block()
                tcmp = local("bool")
                assign(H0, tcmp, binop("Eq", {"copy": {"l": tk, "p": []}}, n_op))
                switch(H0, tcmp, "bool", [[0, H]], X)
            if kind == "count":
                cnt = local("usize", "count")
                assign(nb, cnt, use(cusize(0)))
            if kind == "collect":
                coll = local(inner if not coll_res else inner.rsplit(",", 1)[0])
                nt0 = {k2: v for k2, v in t.items()}
                nt0.update({"callee": cty + "::new", "callee_full": cty + "::new", "callee_crate": "alloc", "generics": [], "trait": None,
                            "resolved": None, "resolved_full": None, "resolved_key": None, "callee_key": None, "resolved_kind": None, "args": [],
                            "arg_tys": [], "dst": {"l": coll, "p": []}, "target": H0, "unwind": None, "synthetic": "desugared-call",
                            "desugared_from": name})
                nb["term"] = nt0
            else:
                nb["term"] = {"k": "goto", "target": H0, "at": at, "exp": None, "synthetic": "desugared-call", "callee": t.get("callee")}
            assign(H, r, {"k": "ref", "mut": True, "place": {"l": it, "p": []}})
            nt = {k2: v for k2, v in t.items()}
            nt.update({"callee": "std::iter::Iterator::next", "callee_full": "<%s as std::iter::Iterator>::next" % arg_ty, "callee_crate": "core",
                       "generics": [arg_ty], "trait": "std::iter::Iterator", "resolved": None, "resolved_full": None, "resolved_key": None,
                       "callee_key": None, "resolved_kind": None, "args": [mv(r)], "arg_tys": ["&mut " + arg_ty], "dst": {"l": tmp, "p": []},
                       "target": S, "unwind": None, "synthetic": "desugar", "desugared_from": name})
            new["blocks"][H]["term"] = nt
            assign(S, dl, {"k": "discr", "place": {"l": tmp, "p": []}, "pty": OPT + "<_>", "adt": OPT, "variants": OPT_V})
            switch(S, dl, "isize", [[1, Bd]], X)
            # lazy adaptors run first, element by element
            cur_blk = Bd
            cur_ty = "_"
            cur_elem = {"move": variant_field(tmp, "Some", 1, OPT)}
            for si, (skind, scallee, senv, snode) in enumerate(stages):
                if skind == "take":
                    assign(cur_blk, tk, binop("Add", {"copy": {"l": tk, "p": []}}, cusize(1)))
                    continue
                s_off = len(new["locals"])
                for l in scallee["locals"]:
                    new["locals"].append(dict(l))
                sinst = inst + "/" + scallee["path"].split("::")[-1] + "@" + str(boff + bi) + "s" + str(si)
                if senv is not None:
                    ety = scallee["locals"][1]["ty"]
                    srcp = {"l": senv + loff, "p": []}
                    assign(cur_blk, s_off + 1, {"k": "ref", "mut": ety.startswith("&mut "), "place": srcp} if ety.startswith("&") else use({"move": srcp}), "arg")
                s_item = s_off + (2 if senv is not None else 1)
                sret = local(scallee["locals"][0]["ty"])
                nxt = block()
                if skind == "map":
                    assign(cur_blk, s_item, use(cur_elem), "arg")
                    scb = emit(scallee, s_off, stack | own | {scallee["key"]}, (d if scallee["kind"] == "Closure" else d - 1), ret_dst={"l": sret, "p": []}, ret_target=nxt, inst=sinst)
                    goto(cur_blk, scb)
                    cur_elem = mv(sret)
                    cur_ty = scallee["locals"][0]["ty"]
                elif skind == "filter_map":
                    # the closure yields Option<U>: None skips the element
                    assign(cur_blk, s_item, use(cur_elem), "arg")
                    tst = block()
                    scb = emit(scallee, s_off, stack | own | {scallee["key"]}, (d if scallee["kind"] == "Closure" else d - 1), ret_dst={"l": sret, "p": []}, ret_target=tst, inst=sinst)
                    goto(cur_blk, scb)
                    dfm = local("isize")
                    assign(tst, dfm, {"k": "discr", "place": {"l": sret, "p": []}, "pty": OPT + "<_>", "adt": OPT, "variants": OPT_V})
                    switch(tst, dfm, "isize", [[1, nxt]], H0)
                    cur_elem = {"move": variant_field(sret, "Some", 1, OPT)}
                    cur_ty = "_"
                else:   # filter: the predicate sees a reference; a rejected element goes back to the header
                    held = local("_")
                    assign(cur_blk, held, use(cur_elem))
                    assign(cur_blk, s_item, {"k": "ref", "mut": False, "place": {"l": held, "p": []}}, "arg")
                    tst = block()
                    scb = emit(scallee, s_off, stack | own | {scallee["key"]}, (d if scallee["kind"] == "Closure" else d - 1), ret_dst={"l": sret, "p": []}, ret_target=tst, inst=sinst)
                    goto(cur_blk, scb)
                    switch(tst, sret, "bool", [[0, H0]], nxt)
                    cur_elem = mv(held)
                new["inlined"].append({"callee": scallee["path"], "at_block": boff + bi, "inst": sinst, "site": at, "desugared": "adaptor " + skind})
                cur_blk = nxt
            if kind == "count":
                assign(cur_blk, cnt, binop("Add", {"copy": {"l": cnt, "p": []}}, cusize(1)))
                goto(cur_blk, H0)
                assign(X, dst, use({"copy": {"l": cnt, "p": []}}))
                goto(X, target)
                return True
            if kind == "collect":
                el = local(cur_ty)
                assign(cur_blk, el, use(cur_elem))
                if coll_res:
                    # an Err element ends the collection with that Err
                    d3 = local("isize")
                    okb, T = block(), block()
                    assign(cur_blk, d3, {"k": "discr", "place": {"l": el, "p": []}, "pty": RES + "<_, _>", "adt": RES, "variants": RES_V})
                    switch(cur_blk, d3, "isize", [[0, okb]], T)
                    assign(T, dst, adt(RES, "Err", [{"move": variant_field(el, "Err", 1, RES)}]))
                    goto(T, target)
                    item = local("_")
                    assign(okb, item, use({"move": variant_field(el, "Ok", 0, RES)}))
                    cur_blk = okb
                else:
                    item = el
                cref = local("&mut _")
                assign(cur_blk, cref, {"k": "ref", "mut": True, "place": {"l": coll, "p": []}})
                scratch = local("_")
                args = [mv(cref)]
                if ins.endswith("Map::insert"):
                    args += [mv(item, [{"f": "0", "i": 0, "of": "tuple", "ty": "_"}]), mv(item, [{"f": "1", "i": 1, "of": "tuple", "ty": "_"}])]
                else:
                    args.append(mv(item))
                cty_full = inner if not coll_res else (split_generics("R<" + inner)[0] if split_generics("R<" + inner) else inner)
                elem_tys = split_generics(cty_full) or ["_"]
                it_ = {k2: v for k2, v in t.items()}
                it_.update({"callee": ins, "callee_full": ins, "callee_crate": "alloc", "generics": [], "trait": None, "resolved": None,
                            "resolved_full": None, "resolved_key": None, "callee_key": None, "resolved_kind": None, "args": args,
                            "arg_tys": ["&mut " + cty_full] + [(elem_tys[j] if j < len(elem_tys) else "_") for j in range(len(args) - 1)],
                            "dst": {"l": scratch, "p": []}, "target": H0, "unwind": None, "synthetic": "desugar", "desugared_from": name})
                new["blocks"][cur_blk]["term"] = it_
                if coll_res:
                    assign(X, dst, adt(RES, "Ok", [mv(coll)]))
                else:
                    assign(X, dst, use(mv(coll)))
                goto(X, target)
                return True
            if kind == "extend":
                el = local("_")
                assign(cur_blk, el, use(cur_elem))
                scratch = local("_")
                args = [{"copy": (t["args"][0].get("move") or t["args"][0].get("copy"))}]
                if ins.endswith("Map::insert"):
                    args += [mv(el, [{"f": "0", "i": 0, "of": "tuple", "ty": "_"}]), mv(el, [{"f": "1", "i": 1, "of": "tuple", "ty": "_"}])]
                else:
                    args.append(mv(el))
                it_ = {k2: v for k2, v in t.items()}
                it_.update({"callee": ins, "callee_full": ins, "callee_crate": "alloc", "generics": [], "trait": None, "resolved": None,
                            "resolved_full": None, "resolved_key": None, "callee_key": None, "resolved_kind": None, "args": args,
                            "arg_tys": [(t.get("arg_tys") or ["_"])[0]] + ["_"] * (len(args) - 1), "dst": {"l": scratch, "p": []},
                            "target": H0, "unwind": None, "synthetic": "desugar", "desugared_from": name})
                new["blocks"][cur_blk]["term"] = it_
                assign(X, dst, unit)
                goto(X, target)
                return True
            bind_env(cur_blk)
            rty = callee["locals"][0]["ty"]
            if kind == "find":
                el = local("_")
                assign(cur_blk, el, use(cur_elem))
                assign(cur_blk, p_item, {"k": "ref", "mut": False, "place": {"l": el, "p": []}}, "arg")
            else:
                assign(cur_blk, p_item, use(cur_elem), "arg")
            rr = local(rty)
            cb = emit_callee({"l": rr, "p": []}, A)
            goto(cur_blk, cb)
            if kind == "for_each":
                goto(A, H0)
                assign(X, dst, unit)
                goto(X, target)
            elif kind in ("any", "find"):
                T = block()
                switch(A, rr, "bool", [[0, H0]], T)
                if kind == "any":
                    assign(T, dst, const_bool(True))
                    assign(X, dst, const_bool(False))
                else:
                    assign(T, dst, adt(OPT, "Some", [mv(el)]))
                    assign(X, dst, adt(OPT, "None", []))
                goto(T, target)
                goto(X, target)
            elif kind == "all":
                F = block()
                switch(A, rr, "bool", [[0, F]], H0)
                assign(F, dst, const_bool(False))
                assign(X, dst, const_bool(True))
                goto(F, target)
                goto(X, target)
            else:   # try_for_each over Result<(), E> / Option<()>
                is_res = rty.startswith(RES)
                d2 = local("isize")
                T = block()
                assign(A, d2, {"k": "discr", "place": {"l": rr, "p": []}, "pty": rty, "adt": RES if is_res else OPT, "variants": RES_V if is_res else OPT_V})
                switch(A, d2, "isize", [[0 if is_res else 1, H0]], T)
                assign(T, dst, use(mv(rr)))
                goto(T, target)
                u = local("()")
                assign(X, u, unit)
                assign(X, dst, adt(RES, "Ok", [mv(u)]) if is_res else adt(OPT, "Some", [mv(u)]))
                goto(X, target)
            return True
        # ---- Option / Result combinators: the closure runs at most once
        is_res = name.startswith("std::result::")
        o = local(arg_ty)
        assign(nb, o, use(t["args"][0]))
        dl = local("isize")
        assign(nb, dl, {"k": "discr", "place": {"l": o, "p": []}, "pty": arg_ty, "adt": RES if is_res else OPT, "variants": RES_V if is_res else OPT_V})
        Bd, X = block(), block()
        switch(nb, dl, "isize", [[0 if is_res else 1, Bd]], X)
        nb["term"]["synthetic"] = "desugared-call"
        nb["term"]["callee"] = t.get("callee")
        bind_env(Bd)
        assign(Bd, p_item, use({"move": variant_field(o, "Ok" if is_res else "Some", 0 if is_res else 1, RES if is_res else OPT)}), "arg")
        if kind in ("is_and", "map_or"):
            # opt.is_some_and(f) / res.is_ok_and(f): f(x) on the payload, false otherwise;  opt.map_or(default, f): f(x), default otherwise
            cb = emit_callee(dst, target)
            goto(Bd, cb)
            assign(X, dst, const_bool(False) if kind == "is_and" else use(t["args"][1]))
            goto(X, target)
            return True
        if kind == "and_then":
            cb = emit_callee(dst, target)
        else:
            rr = local(callee["locals"][0]["ty"])
            A = block()
            cb = emit_callee({"l": rr, "p": []}, A)
            assign(A, dst, adt(RES if is_res else OPT, "Ok" if is_res else "Some", [mv(rr)]))
            goto(A, target)
        goto(Bd, cb)
        if is_res:
            assign(X, dst, adt(RES, "Err", [{"move": variant_field(o, "Err", 1, RES)}]))
        else:
            assign(X, dst, adt(OPT, "None", []))
        goto(X, target)
        return True

    emit(root, 0, {root_key}, depth)
    new["ret_locals"] = sorted(new.get("ret_locals", []))
    if desugar:
        _devirtualise(fx, new)
    return new


_FN_TRAITS = ("std::ops::Fn", "std::ops::FnMut", "std::ops::FnOnce")


def _generic_subst(callee, t):
    """{type parameter name: the type this call site instantiates it with} for a generic local function."""
    names = callee.get("generic_params") or []
    actual = t.get("generics") or []
    if not names or len(names) != len(actual):
        return {}
    out = {}
    for nme, act in zip(names, actual):
        if nme.startswith("'") or nme == act or not re.match(r"^[A-Za-z_][A-Za-z0-9_]*$", nme):
            continue
        out[nme] = act
    return out


def _apply_subst(new, subst, cl_off, n_locals, first_block):
    """Rewrite the type parameter names in everything the just-inlined instance contributed (its locals' types, and the
    generic arguments / argument types of its calls) - the MIR of a generic function is not monomorphic."""
    rx = re.compile(r"(?<![A-Za-z0-9_:])(" + "|".join(re.escape(k) for k in sorted(subst, key=len, reverse=True)) + r")(?![A-Za-z0-9_])")
    rep = lambda sx: rx.sub(lambda m: subst[m.group(1)], sx) if isinstance(sx, str) else sx
    for l in new["locals"][cl_off:cl_off + n_locals]:
        l["ty"] = rep(l["ty"])
    for blk in new["blocks"][first_block:]:
        if blk is None:
            continue
        t = blk.get("term")
        if t and t["k"] == "call" and not t.get("_subst"):
            for fld_ in ("generics", "arg_tys"):
                if t.get(fld_):
                    t[fld_] = [rep(x) for x in t[fld_]]
            for fld_ in ("callee_full", "resolved_full"):
                if t.get(fld_):
                    t[fld_] = rep(t[fld_])
        for st in blk["stmts"]:
            rv = st.get("rv")
            if isinstance(rv, dict):
                for fld_ in ("pty", "ty"):
                    if isinstance(rv.get(fld_), str):
                        rv[fld_] = rep(rv[fld_])


def _devirtualise(fx, new):
    """A generic helper that is handed a function item (`index_by(items, PublicKey::key_id)`) calls it as `F::call(&f, (x,))`.
    Once the helper is inlined the callee operand is a known function item: the indirect call is rewritten into the direct
    call it is (not inlined further), so that rules looking for `PublicKey::key_id(..)` see it in both spellings."""
    FN_TRAITS = ("std::ops::Fn", "std::ops::FnMut", "std::ops::FnOnce")
    cand = [(i, blk["term"]) for i, blk in enumerate(new["blocks"]) if blk and blk["term"] and blk["term"]["k"] == "call" and not blk["cleanup"]
            and norm(blk["term"].get("trait")) in FN_TRAITS and len(blk["term"]["args"]) == 2]
    if not cand:
        return
    b = Body(new)
    for (i, t) in cand:
        if i not in b.reach:
            continue
        lv = b.trace(t["args"][0])
        if len(lv) != 1 or lv[0].kind != "const" or not (lv[0].data.get("fn") or lv[0].data.get("fn_key")) or lv[0].path:
            continue
        c = lv[0].data
        tp = op_place(t["args"][1])
        d = b.single_def(tp["l"]) if tp is not None and not tp["p"] else None
        if not (d and d.kind == "assign" and d.node["rv"]["k"] == "agg" and d.node["rv"].get("agg") == "tuple"):
            continue
        args = list(d.node["rv"]["ops"])
        if c.get("fn_key") and "{constructor#" in c["fn_key"]:
            # a tuple-struct / enum-variant constructor handed over as a function (`decode(value, Wrapper::V2)`): the call builds the value
            pth = c.get("fn") or ""
            ctor = None
            if pth in fx.adts and len(fx.adts[pth]["variants"]) == 1:
                ctor = (pth, fx.adts[pth]["variants"][0]["name"])
            else:
                par, _, var = pth.rpartition("::")
                if par in fx.adts and any(v["name"] == var for v in fx.adts[par]["variants"]):
                    ctor = (par, var)
            if ctor is None or t.get("target") is None:
                continue
            new["blocks"][i]["stmts"].append({"k": "assign", "dst": t["dst"], "rv": {"k": "agg", "agg": "adt", "adt": ctor[0], "variant": ctor[1],
                                              "fields": [str(x) for x in range(len(args))], "ops": args}, "at": t["at"], "exp": None, "synthetic": "devirtualised"})
            new["blocks"][i]["term"] = {"k": "goto", "target": t["target"], "at": t["at"], "exp": None, "synthetic": "devirtualised"}
            continue
        g = fx.fns.get(c.get("fn_key")) if c.get("fn_key") else None
        path = (g["path"] if g else c.get("fn")) or ""
        if not path:
            continue
        nt = dict(t)
        nt.update({"callee": path, "callee_full": path, "callee_key": c.get("fn_key"), "resolved_key": c.get("fn_key"), "resolved": path,
                   "resolved_full": path, "trait": None, "generics": [], "args": args,
                   "arg_tys": [new["locals"][op_place(a)["l"]]["ty"] if op_place(a) is not None and not op_place(a)["p"] else "?" for a in args],
                   "callee_crate": "in_toto" if g else t.get("callee_crate"), "synthetic": "devirtualised"})
        new["blocks"][i]["term"] = nt


_DESUGAR = {
    "std::iter::Extend::extend": "extend",
    "std::iter::Iterator::collect": "collect",
    "std::iter::Iterator::count": "count",
    "std::iter::Iterator::for_each": "for_each", "std::iter::Iterator::any": "any", "std::iter::Iterator::all": "all",
    "std::iter::Iterator::find": "find", "std::iter::Iterator::try_for_each": "try_for_each",
    "std::option::Option::is_some_and": "is_and", "std::result::Result::is_ok_and": "is_and",
    "std::option::Option::map_or": "map_or", "std::result::Result::map_or": "map_or",
    "std::option::Option::map": "map", "std::option::Option::and_then": "and_then",
    "std::result::Result::map": "map", "std::result::Result::and_then": "and_then",
}


def region_body(fx, root_path, depth=4, policy=None):
    f = fx.fn(root_path)
    return Body(inline_region(fx, f["key"], depth, policy))


def region_of_key(fx, key, depth=4, policy=None, skip_root_sites=()):
    return Body(inline_region(fx, key, depth, policy, True, skip_root_sites))
