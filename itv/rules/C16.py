"""C16 - layout, link and signed-block metadata survive a wire round trip unchanged."""
import re
from ..core import (Body, callee_name, norm, op_const, op_place, proj_path, as_cmp, leaf_s, OK, F0, F1, SOME, ELEM)
from ..guards import root_ids, body_of, def_call
from ..ss import Schema
from . import shared, canon, keys

EXPLANATION = (
    "Schema and table rules over the wire closure of Metablock (schema extracted from the derive-expanded, type-checked "
    "code). D1: for every derived struct the serialised key set equals the accepted key set, every key is required or an "
    "Option (no default, no alias, no skip), and a field is omitted only under Option::is_none; derived enums write the "
    "variant names they accept. D2: hand-written pairs agree on their token tables: ArtifactRule keywords emitted vs. "
    "accepted, KeyType Display vs. FromStr, one hex codec. D3: the Layout / Link shims move every field in both "
    "directions (the constant `_type` is checked on the way in) and the hand-written Serialize / Deserialize of the "
    "metadata types delegate to the same shim. D4: what the hand-written decoders store is exactly what they read "
    "(rule elements, key hash-algorithm list and scheme; for the string newtypes VirtualTargetPath and KeyId the stored text "
    "is the decoded String, with the constructors they go through inlined), with no normalisation or defaulting in between.")
DECIDED = ["D1 schema symmetry", "D2 token tables of hand-written (de)serialisers", "D3 shim field mapping in both directions", "D4 decoded values stored unmodified"]
UNDECIDED = ["equality of values and of re-serialised bytes for all inputs", "interplay of the flattened by-products map with its named siblings", "the order of rule elements (pinned by the rule fixtures)"]
TRUSTED = ["serde derive semantics", "serde_json round-trips the primitive types"]
ASSUMPTIONS = []
FLOORS = {"C16/D1": 12, "C16/D2": 4, "C16/D3": 14, "C16/D4": 5}

ROOTS = ["models::metadata::Metablock"]
RULE_TOKENS = {"CREATE", "DELETE", "MODIFY", "ALLOW", "REQUIRE", "DISALLOW", "MATCH", "IN", "WITH", "FROM", "MATERIALS", "PRODUCTS"}


def is_option(ty):
    return ty.startswith("std::option::Option<")


def str_consts(fx, f, only_compared=False, body=None):
    b = body if body is not None else body_of(fx, f["key"])
    out = set()
    if only_compared:
        for i, t in b.calls():
            if callee_name(t) in ("std::cmp::PartialEq::eq", "std::cmp::PartialEq::ne"):
                for a in t["args"]:
                    for lf in b.trace(a):
                        if lf.kind == "const" and "str" in lf.data:
                            out.add(lf.data["str"])
        return out
    for blk in b.blocks:
        for st in blk["stmts"]:
            if st["k"] == "assign":
                for o in ([st["rv"].get("op")] if st["rv"]["k"] in ("use", "cast") else st["rv"].get("ops", [])):
                    c = op_const(o) if o else None
                    if c and "str" in c:
                        out.add(c["str"])
                    elif c and "promoted" in c:
                        for lf in b.trace(o):
                            if lf.kind == "const" and "str" in lf.data:
                                out.add(lf.data["str"])
        t = blk["term"]
        if t and t["k"] == "call":
            for a in t["args"]:
                c = op_const(a)
                if c and "str" in c:
                    out.add(c["str"])
                elif c and "promoted" in c:
                    for lf in b.trace(a):
                        if lf.kind == "const" and "str" in lf.data:
                            out.add(lf.data["str"])
    return out


def run(ctx):
    canon.resolve_names(ctx)
    fx = ctx.fx
    S = Schema(fx)
    closure = sorted(S.wire_closure(ROOTS))
    ctx.note("wire closure of Metablock: %s" % closure)
    check_struct_schemas(ctx, S, closure, "C16/D1")
    check_tables(ctx, S, "C16/D2")
    check_shims(ctx, S, "C16/D3")
    check_stored_as_read(ctx, S, "C16/D4", set(closure))


def check_struct_schemas(ctx, S, closure, RULE, ser_only=False):
    fx = ctx.fx
    # ---- D1
    for a in closure:
        s, d = S.ser.get(a), S.de.get(a)
        adt = fx.adts[a]
        if not s or not d:
            continue
        if s["derived"] and d["derived"] and adt["kind"] == "Struct" and ("serialize_struct" in s["kind"] or "serialize_map" in s["kind"]):
            fields = {fl["name"]: fl["ty"] for fl in adt["variants"][0]["fields"]}
            sk = [e["key"] for e in s["entries"]]
            dk = d["keys"]
            probs = []
            if sorted(sk) != sorted(dk):
                probs.append("serialised keys %s != accepted keys %s" % (sorted(sk), sorted(dk)))
            if len(set(dk)) != len(dk) or len(dk) != len([f_ for f_ in fields if f_ not in s["flatten"]]):
                probs.append("accepted keys %s do not correspond one-to-one to the %d fields (alias / skip?)" % (sorted(dk), len(fields)))
            if d["defaults"]:
                probs.append("default values for %s" % d["defaults"])
            if sorted(d["missing"]) != sorted(dk):
                probs.append("keys without a missing-field error: %s" % sorted(set(dk) - set(d["missing"])))
            for e in s["entries"]:
                fty = fields.get(e["field"], "?")
                if e["guard"]:
                    gs = [(g[0], g[1], g[2]) for g in e["guard"]]
                    if not (is_option(fty) and all(g[0] == "std::option::Option::is_none" and g[1] is False and g[2] == e["field"] for g in gs)):
                        probs.append("field %s omitted under %s" % (e["field"], gs))
            emitted_fields = {e["field"] for e in s["entries"]} | set(s["flatten"])
            if emitted_fields != set(fields):
                probs.append("fields not serialised: %s" % sorted(set(fields) - emitted_fields))
            ctx.inst(RULE, "%s schema symmetric" % a, not probs, "; ".join(probs) if probs else "keys %s both ways%s" % (
                sorted(sk), (", flattened: %s" % s["flatten"]) if s["flatten"] else ""), s["at"])
        elif s["derived"] and d["derived"] and adt["kind"] == "Enum" and s["variants"]:
            sv = sorted(v["wire"] for v in s["variants"])
            dv = sorted(d["keys"])
            ctx.inst(RULE, "%s variant names symmetric" % a, sv == dv, "written %s, accepted %s" % (sv, dv), s["at"])
        elif s["derived"] and d["derived"] and "serialize_newtype_struct" in s["kind"]:
            ctx.inst(RULE, "%s newtype both ways" % a, "deserialize_newtype_struct" in d["kind"], "ser %s / de %s" % (s["kind"], d["kind"]), s["at"])


def _rule_fns(fx, S):
    rs = S.ser_fn.get("models::layout::rule::ArtifactRule")
    vis = [g for g in fx.doc["fns"] if g["path"].startswith("<models::layout::rule::ArtifactRuleVisitor as") and g["path"].endswith("::visit_seq")]
    asref = [g for g in fx.doc["fns"] if g["path"] == "<models::layout::rule::Artifact as std::convert::AsRef<str>>::as_ref"]
    return rs, vis, asref


def check_tables(ctx, S, RULE):
    fx = ctx.fx
    # ---- D2 tables
    rs = S.ser_fn.get("models::layout::rule::ArtifactRule")
    vis = [g for g in fx.doc["fns"] if g["path"].startswith("<models::layout::rule::ArtifactRuleVisitor as") and g["path"].endswith("::visit_seq")]
    asref = [g for g in fx.doc["fns"] if g["path"] == "<models::layout::rule::Artifact as std::convert::AsRef<str>>::as_ref"]
    if rs and len(vis) == 1 and len(asref) == 1:
        # in the REGION of each (private helpers such as a keyword() table or a token reader inlined)
        rs_b = ctx.region(None, policy="private", key=rs["key"])
        vis_b = ctx.region(None, policy="private", key=vis[0]["key"])
        emitted = {x for x in str_consts(fx, rs, body=rs_b) | str_consts(fx, asref[0]) if re.match(r"^[A-Z]+$", x)}
        accepted = {x for x in str_consts(fx, vis[0], only_compared=True, body=vis_b) if re.match(r"^[A-Z]+$", x)}
        ctx.inst(RULE, "ArtifactRule keyword tables", emitted == accepted == RULE_TOKENS,
                 "emitted %s; accepted %s" % (sorted(emitted), sorted(accepted)), rs["at"])
    else:
        ctx.bad(RULE, "ArtifactRule keyword tables", "hand-written rule (de)serialiser not found")
    kt_disp = [g for g in fx.doc["fns"] if g["path"] == "<crypto::KeyType as std::fmt::Display>::fmt"]
    kt_from = [g for g in fx.doc["fns"] if g["path"] == "<crypto::KeyType as std::str::FromStr>::from_str"]
    if len(kt_disp) == 1 and len(kt_from) == 1:
        t1 = shared.enum_to_string_table(fx, kt_disp[0], "KeyType")
        t2 = shared.string_to_enum_table(fx, kt_from[0], "crypto::KeyType")
        t1n = {k: v for k, v in t1.items() if k != "Unknown"}
        t2n = {k: v for k, v in t2.items() if k != "Unknown"}
        ctx.inst(RULE, "KeyType Display / FromStr tables", bool(t1n) and t1n == t2n, "display %s; from_str %s" % (
            {k: sorted(v) for k, v in t1n.items()}, {k: sorted(v) for k, v in t2n.items()}), kt_disp[0]["at"])
    else:
        ctx.bad(RULE, "KeyType tables", "Display / FromStr impls not found")
    canon.check_codec(ctx, RULE)
    keys.check_custom_codecs_paired(ctx, RULE)


def check_shims(ctx, S, RULE, directions=("from", "try_into")):
    fx = ctx.fx
    # ---- D3 shims
    for (shim, meta, typ_const) in (("models::layout::Layout", "models::layout::metadata::LayoutMetadata", "layout"),
                                    ("models::link::Link", "models::link::metadata::LinkMetadata", "link")):
        ff = fx.fn_opt(shim + "::from")
        tf = fx.fn_opt(shim + "::try_into")
        adt = fx.adts.get(shim)
        madt = fx.adts.get(meta)
        if not ff or not tf or not adt or not madt:
            ctx.bad(RULE, shim, "shim conversion functions not found")
            continue
        fb = ctx.region(None, policy="private", key=ff["key"])
        sites = [st for i, blk in enumerate(fb.blocks) for st in blk["stmts"] if st["k"] == "assign" and st["rv"].get("adt") == shim and i in fb.reach]
        mfields = [fl["name"] for fl in madt["variants"][0]["fields"]]
        if len(sites) != 1:
            ctx.bad(RULE, "%s::from" % shim, "expected one construction, found %d" % len(sites))
        else:
            rv = sites[0]["rv"]
            used = set()
            for fname, op in zip(rv["fields"], rv["ops"]):
                lv = fb.trace(op, (), None, {"__flow_all__": lambda t: callee_name(t) in ("std::iter::Iterator::map",) or (callee_name(t) or "").startswith("chrono::")})
                lv = [l for l in lv if not (l.kind == "agg" and l.data[2].get("agg") == "closure")]
                if fname != "typ":
                    # a collection rebuilt element by element: its content is what counts; formatting options are not data
                    lv2 = []
                    for l in lv:
                        if l.kind == "call" and (callee_name(l.data[1]) or "").endswith(("::new", "::with_capacity")) and not l.path:
                            lv2 += fb.trace(op, (ELEM,), None, {"__content__": True, "__flow_all__": lambda t: (callee_name(t) or "").startswith("chrono::")})
                        elif l.kind in ("const", "agg") and any(v.startswith("DateTime::") for v in l.via):
                            continue
                        else:
                            lv2.append(l)
                    lv = lv2
                if fname == "typ":
                    okf = bool(lv) and all(l.kind == "const" and l.data.get("str") == typ_const for l in lv)
                    ctx.inst(RULE, "%s::from sets _type" % shim.split("::")[-1], okf, "_type <- {%s}" % ", ".join(leaf_s(fb, l) for l in lv), ff["at"])
                    continue
                srcs = {l.path[0][1] for l in lv if l.kind == "param" and l.data == 1 and l.path}
                okf = bool(lv) and all(l.kind == "param" and l.data == 1 for l in lv) and len(srcs) == 1
                used |= srcs
                # same-named (environment <-> env is the wire rename of the same field)
                same = srcs == {fname}
                ctx.inst(RULE, "%s::from %s" % (shim.split("::")[-1], fname), okf and same, "%s <- {%s}" % (fname, ", ".join(leaf_s(fb, l) for l in lv)), ff["at"])
            ctx.inst(RULE, "%s::from covers every metadata field" % shim.split("::")[-1], used == set(mfields), "metadata fields used: %s of %s" % (sorted(used), sorted(mfields)), ff["at"])
        tb = ctx.region(None, policy="private", key=tf["key"], ps=True)
        news = tb.calls_named(meta + "::new")
        if len(news) != 1:
            ctx.bad(RULE, "%s::try_into" % shim, "expected one %s::new call, found %d" % (meta, len(news)))
        else:
            nf = fx.fn(meta + "::new")
            nb = body_of(fx, nf["key"])
            used = set()
            okall = True
            det = []
            for fl in mfields:
                pl = nb.trace({"l": 0, "p": []}, (("f", fl),)) or nb.trace({"l": 0, "p": []}, (OK, F0, ("f", fl)))
                if not (pl and all(l.kind == "param" for l in pl)):
                    okall = False
                    det.append("%s: constructor source unknown" % fl)
                    continue
                arg = news[0][1]["args"][pl[0].data - 1]
                al = tb.trace(arg, (), None, {"__flow_all__": lambda t: (callee_name(t) or "").startswith("chrono::") or callee_name(t) in ("std::iter::Iterator::filter", "std::iter::Iterator::collect", "std::iter::IntoIterator::into_iter")})
                # a table filled by insertions (helper with a loop instead of filter + collect): its content is what is inserted
                al2 = []
                for l in al:
                    if l.kind == "call" and callee_name(l.data[1]) in ("std::collections::HashMap::new", "std::collections::BTreeMap::new") and not l.path:
                        table = ("call", l.data[0], ())
                        for (ii, it) in tb.calls_named("std::collections::HashMap::insert", "std::collections::BTreeMap::insert"):
                            if table in root_ids(tb, it["args"][0]):
                                al2 += tb.trace(it["args"][1]) + tb.trace(it["args"][2])
                    else:
                        al2.append(l)
                al = al2
                srcs = {l.path[0][1] for l in al if l.kind == "param" and l.data == 1 and l.path}
                if not (al and srcs == {fl} and all((l.kind == "param" and l.data == 1) or l.kind in ("const", "agg") or (l.kind == "call" and "closure" in str(l.data[1].get("generics"))) for l in al)):
                    if not (srcs == {fl}):
                        okall = False
                        det.append("%s <- {%s}" % (fl, ", ".join(leaf_s(tb, l) for l in al)))
                used |= srcs
            ctx.inst(RULE, "%s::try_into moves every field into the same-named metadata field" % shim.split("::")[-1], okall and used == set(mfields),
                     "fields used %s; problems %s" % (sorted(used), det), tf["at"])
            # _type is checked
            chk = False
            for (e, tb2, fa) in tb.all_edge_facts():
                c = as_cmp(fa)
                if c:
                    for (u, v) in ((c[1], c[2]), (c[2], c[1])):
                        ul = tb.trace(u)
                        vl = tb.trace(v)
                        if ul and all(l.kind == "param" and l.data == 1 and l.path[:1] == (("f", "typ"),) for l in ul) and \
                                vl and all(l.kind == "const" and l.data.get("str") == typ_const for l in vl):
                            # the metadata is only built on the edge where the tag is the expected one
                            if c[0] == "Eq" and news[0][0] in tb.edge_dominated(e):
                                chk = True
            ctx.inst(RULE, "%s::try_into checks _type" % shim.split("::")[-1], chk,
                     "the shim's `_type` is compared with %r: %s%s" % (typ_const, chk, "" if chk else
                      " - any `_type` is accepted and silently re-serialised as %r" % typ_const), tf["at"])
        # the metadata type's own Serialize / Deserialize delegate to the shim
        s, d = S.ser.get(meta), S.de.get(meta)
        sd = {x.get("ty") or x.get("fn") for x in (s["delegates"] if s else [])}
        dd = {x.get("ty") or x.get("fn") for x in (d["delegates"] if d else [])}
        ctx.inst(RULE, "%s (de)serialises through %s" % (meta.split("::")[-1], shim.split("::")[-1]),
                 {shim, shim + "::from"} <= sd and {shim, shim + "::try_into"} <= dd, "serialize delegates %s; deserialize delegates %s" % (sorted(sd), sorted(dd)))


def check_stored_as_read(ctx, S, RULE, closure=None):
    fx = ctx.fx
    rs, vis, asref = _rule_fns(fx, S)
    # ---- D4 decoded values stored unmodified
    if len(vis) == 1:
        vb = ctx.region(None, policy="private", key=vis[0]["key"])
        n = 0
        for i, blk in enumerate(vb.blocks):
            if i not in vb.reach:
                continue
            for st in blk["stmts"]:
                if st["k"] == "assign" and st["rv"].get("adt") == "models::layout::rule::ArtifactRule":
                    rv = st["rv"]
                    for fname, op in zip(rv["fields"], rv["ops"]):
                        if fname == "with":
                            continue
                        n += 1
                        lv = []
                        for l0 in vb.trace(op):
                            if l0.kind == "agg" and l0.data[2].get("variant") == "Some":
                                lv += vb.trace(l0.data[2]["ops"][0])
                            else:
                                lv.append(l0)
                        allowed = {"Try::branch", "Option::ok_or_else", "Option::ok_or", "SeqAccess::next_element"}
                        okv = bool(lv) and all((l.kind == "call" and callee_name(l.data[1]) == "serde::de::SeqAccess::next_element" and set(l.via) <= allowed)
                                               or (l.kind == "agg" and l.data[2].get("variant") == "None") for l in lv)
                        if not okv:
                            ctx.bad(RULE, "ArtifactRule::%s.%s stored as read" % (rv["variant"], fname),
                                    "value is transformed between the wire and the stored rule: <- {%s}" % ", ".join(leaf_s(vb, l) for l in lv), st["at"])
        ctx.ok(RULE, "rule elements stored as read", "%d rule payload fields examined: each is a next_element() result (possibly wrapped in Some)" % n)
    keys.check_string_newtypes(ctx, RULE, closure)
    keys.check_newtype_serialize(ctx, RULE, closure)
    keys.check_pubkey_deser(ctx, RULE)
