"""C07 - multi-party steps require identical recorded artifacts from all signers."""
from ..core import (callee_name, op_place, op_const, proj_path, as_cmp, leaf_s, OK, F0, F1, SOME, ELEM, SWAP, norm)
from ..guards import root_ids, same_root, const_int
from ..pipeline import Pipeline, Stages, fld

EXPLANATION = (
    "On the path-sensitive REGION super-graph of in_toto_verify. The agreement stage is the loop over the verified "
    "layout's steps that contains comparisons of LinkMetadata.materials / .products. D1: its exhaustion edge dominates "
    "the step-rule stage, the inspection run and the summary, and the map it reads is the one the representative is "
    "later taken from. D2: a step can leave the stage's body without entering the comparison loop only over an edge "
    "stating threshold <= 1. D3: the comparison loop iterates HashMap::values() of the step's whole link map (no "
    "take/skip/filter), its only exits are exhaustion and Err returns, and every iteration that continues has passed "
    "both `materials ==` and `products ==` against a reference link taken from the same map (not the link itself); every local "
    "type inside those maps has a derived PartialEq, or a hand-written one that compares whole fields / lengths. "
    "D4: the loops that build that map (loading, signature check, sub-layouts) have no early exit, so the compared set "
    "is the complete set of valid authorised links.")
DECIDED = ["D1 agreement precedes representative selection, rules, inspections and summary", "D2 skip only for threshold <= 1",
           "D3 every link compared on materials and products with a reference from the same map", "D4 no link is dropped before the comparison"]
UNDECIDED = ["BTreeMap / HashMap equality semantics (std)"]
TRUSTED = ["std map equality compares all entries (paths, algorithms, digests)"]
ASSUMPTIONS = []
FLOORS = {"C07/D1": 5, "C07/D2": 1, "C07/D3": 4, "C07/D4": 3}


def run(ctx):
    # the equality the comparison uses is structural for everything inside the artifact maps
    from . import shared as _shared
    _shared.check_structural_equality(ctx, "C07/D3", "models::link::metadata::LinkMetadata", {"materials", "products"})
    P = Pipeline(ctx)
    if not P.ok or P.gate is None:
        ctx.bad("C07/D1", "anchor", "in_toto_verify / signature gate not found (failing closed)")
        return
    b = P.b
    S = Stages(P)
    if S.agree is None:
        ctx.bad("C07/D1", "agreement stage", "no loop comparing LinkMetadata.materials / .products found in the verification region "
                "(cannot show that links of a multi-party step are compared)")
        return
    ex = S.exhaustion(S.agree)
    steps_loops = P.loops_over("steps")
    is_steps = any(l[2] == S.agree for l in steps_loops)
    ctx.inst("C07/D1", "agreement stage iterates the verified layout's steps", is_steps and bool(ex),
             "agreement loop header over layout.steps: %s; exhaustion edges %s" % (is_steps, ex))
    after_run = set()
    for (i, t) in P.runs:
        after_run |= b.reach_between(i)
    later = [("inspection run", i, t) for (i, t) in P.runs] + [("summary construction", i, t) for (i, t) in P.summaries]
    for (top, blks, lp) in S.rule_instances:
        later.append(("artifact rules %s" % top.rsplit("@", 1)[0], min(blks), b.blocks[min(blks)]["term"]))
    for (name, i, t) in later:
        okd = any(i in b.edge_dominated(e) for e in ex)
        ctx.inst("C07/D1", "agreement before %s" % name, okd, "%s is %sedge-dominated by the agreement stage's exhaustion" % (name, "" if okd else "NOT "), t.get("at"))
    # comparison loop(s)
    inner = None
    cands = [l for l in b.loops().values() if l < S.agree and any(x in l for x in S.agree_blocks)]
    if cands:
        inner = max(cands, key=len)
    if inner is None:
        ctx.bad("C07/D3", "comparison loop", "materials/products comparisons are not inside a loop over the step's links")
        return
    iex = b.loop_exhaustion_edges(inner)
    # header of the stage loop and its Some edge
    hdr = [x for x in sorted(S.agree) if b.blocks[x]["term"] and b.blocks[x]["term"]["k"] == "call"
           and callee_name(b.blocks[x]["term"]) == "std::iter::Iterator::next" and x not in inner
           and all(b.dom_plain(x, e[0]) for (e, tb) in b.back_edges() if tb in S.agree and b.loop_blocks(tb) == S.agree)]
    ihdr = [x for x in sorted(inner) if b.blocks[x]["term"] and b.blocks[x]["term"]["k"] == "call"
            and callee_name(b.blocks[x]["term"]) == "std::iter::Iterator::next"
            and all(b.dom_plain(x, e[0]) for (e, tb) in b.back_edges() if tb in inner and b.loop_blocks(tb) == inner)]
    if not hdr or not ihdr:
        ctx.bad("C07/D3", "loop headers", "agreement loops are not driven by Iterator::next")
        return
    h, ih = hdr[0], ihdr[0]
    ht, iht = b.blocks[h]["term"], b.blocks[ih]["term"]
    some_edges = [e for (e, tb, f) in b.all_edge_facts() if f[0] == "variant" and f[2] == "Some" and f[1]["l"] == ht["dst"]["l"] and not proj_path(f[1])]
    isome_edges = [e for (e, tb, f) in b.all_edge_facts() if f[0] == "variant" and f[2] == "Some" and f[1]["l"] == iht["dst"]["l"] and not proj_path(f[1])]
    back = [e for (e, tb) in b.back_edges() if tb in S.agree and b.loop_blocks(tb) == S.agree]
    iback = [e for (e, tb) in b.back_edges() if tb in inner and b.loop_blocks(tb) == inner]
    # ---- D2: skip edges
    skip = []
    other_thr = []
    step_thr = P.gate_leaf_path(fld("steps"), ELEM, fld("threshold"))
    for (e, tb, f) in b.all_edge_facts():
        if e[0] not in S.agree or e[0] in inner:
            continue
        c = as_cmp(f)
        if not c:
            continue
        for (u, v, o) in ((c[1], c[2], c[0]), (c[2], c[1], SWAP[c[0]])):
            lv = b.trace(u)
            if lv and all(lf.kind == "call" and lf.data[0] == P.gate[0] and lf.path == step_thr for lf in lv):
                k = const_int(b, v)
                if k is not None and ((o == "Le" and k <= 1) or (o == "Lt" and k <= 2) or (o == "Eq" and k in (0, 1))):
                    skip.append(e)
                elif k is not None and o in ("Le", "Lt", "Eq"):
                    other_thr.append((e, o, k))
    body_start = [b.succ[e[0]][e[1]][0] for e in some_edges]
    removed = set(skip) | set(iex)
    leak = False
    for st in body_start:
        r = b.edges_between(st, removed_edges=removed, removed_blocks=())
        if any(e in r for e in back):
            # the back edge is reachable without a skip edge and without exhausting the comparison loop
            leak = True
    ctx.inst("C07/D2", "a step is skipped only when threshold <= 1", bool(skip) is not None and not leak,
             "skip edges (threshold <= 1): %s; other threshold tests in the stage: %s; the next step can%s be reached from the body entry "
             "without a skip edge and without exhausting the comparison loop" % (skip, other_thr, "" if leak else "not"), b.at(h))
    # ---- D3
    src = b.trace(iht["dst"], (SOME, F0))
    via_ok = bool(src) and all(set(lf.via) <= {"Iterator::next", "IntoIterator::into_iter", "HashMap::values", "HashMap::get",
                                                "Try::branch", "Option::ok_or_else", "Option::ok_or", "Deref::deref", "Clone::clone"} for lf in src)
    whole = bool(src) and all("HashMap::values" in lf.via or "HashMap::iter" in lf.via for lf in src)
    ctx.inst("C07/D3", "comparison loop iterates all values of the step's link map", via_ok and whole,
             "iterated element <- %s" % P.leaves_s(iht["dst"], (SOME, F0)), iht["at"])
    cont = b.continuing_exits(inner)
    ctx.inst("C07/D3", "comparison loop is left only by exhaustion or an Err return", not cont,
             "early exits that continue verification: %s" % [(e, b.at(e[0])) for e in cont], iht["at"])
    elem_roots = root_ids(b, iht["dst"], (SOME, F0))
    for field in ("materials", "products"):
        eq_edges = []
        bad_ops = []
        for (e, tb, f) in b.all_edge_facts():
            if e[0] not in inner:
                continue
            c = as_cmp(f)
            if not c or c[0] != "Eq":
                continue
            ra, rb = root_ids(b, c[1]), root_ids(b, c[2])
            stop_at_next = lambda tt: callee_name(tt) == "std::iter::Iterator::next"
            la, lb = b.trace(c[1], (), stop_at_next), b.trace(c[2], (), stop_at_next)
            is_elem = {id(ra): bool(la) and all(l.kind == "call" and l.data[0] == ih and l.path[-1:] == (fld(field),) for l in la),
                       id(rb): bool(lb) and all(l.kind == "call" and l.data[0] == ih and l.path[-1:] == (fld(field),) for l in lb)}
            not_elem = {id(ra): bool(la) and not any(l.kind == "call" and l.data[0] == ih for l in la),
                        id(rb): bool(lb) and not any(l.kind == "call" and l.data[0] == ih for l in lb)}
            def is_elem_field(r):
                return is_elem[id(r)]
            def is_ref_field(r):
                # a link taken from the same map (same base), but not the element the comparison loop is at
                return bool(r) and all(p[-1:] == (fld(field),) for (k, i, p) in r) and not_elem[id(r)] \
                    and {(k, i) for (k, i, p) in r} == {(k, i) for (k, i, p) in elem_roots}
            if (is_elem_field(ra) and is_ref_field(rb)) or (is_elem_field(rb) and is_ref_field(ra)):
                eq_edges.append(e)
            elif any(p[-1:] == (fld(field),) for (k, i, p) in ra | rb):
                bad_ops.append((e, P.leaves_s(c[1]), P.leaves_s(c[2])))
        if not eq_edges:
            ctx.bad("C07/D3", "every continuing iteration has passed `%s ==`" % field,
                    "no edge `link.%s == reference.%s` (iterated link vs. a link from the same map) in the comparison loop; other comparisons: %s" % (
                        field, field, bad_ops[:2]), iht["at"])
            continue
        leak = False
        for e0 in isome_edges:
            st = b.succ[e0[0]][e0[1]][0]
            r = b.edges_between(st, removed_edges=set(eq_edges))
            if any(e in r for e in iback):
                leak = True
        ctx.inst("C07/D3", "every continuing iteration has passed `%s ==`" % field, not leak,
                 "`==` edges %s; next iteration %s reachable without them" % (eq_edges, "IS" if leak else "is not"), b.at(eq_edges[0][0]))
    # ---- D1b: same map as the representative is taken from
    gets = [(i, t) for (i, t) in b.calls_named("std::collections::HashMap::get") if i in S.agree and i not in inner]
    agree_maps = set()
    for (i, t) in gets:
        agree_maps |= {(k, i_) for (k, i_, p) in root_ids(b, t["args"][0])}
    rep = []
    for (i, t) in b.calls():
        n = callee_name(t) or ""
        if n.split("::")[-1] in ("min_by", "min_by_key", "max_by", "max_by_key", "last", "next") and "LinkMetadata" in " ".join(t.get("generics", [])) + " ".join(t.get("arg_tys") or []):
            rep.append((i, t))
    ctx.note("maps read by the agreement stage: %s" % sorted(agree_maps))
    # ---- D4: completeness of the compared set
    for (name, lp, anchors) in (("link loading", S.load, [i for (i, t) in P.file_reads]),
                                ("signature thresholds", S.thresh, [i for (i, t) in P.link_verifies]),
                                ("sub-layout stage", S.sub, [i for (i, t) in P.recursions])):
        if lp is None:
            ctx.bad("C07/D4", "no early exit in " + name, "stage not found")
            continue
        # the loops that enumerate evidence: those around the stage's anchor call (file read / signature check / recursion)
        inner_loops = [l for l in b.loops().values() if l <= lp and any(a in l for a in anchors)]
        exits = []
        for l in inner_loops:
            exits += b.continuing_exits(l)
        ctx.inst("C07/D4", "no early exit in " + name, not exits,
                 "loops of the stage: %d; exits that drop remaining links and continue: %s" % (len(inner_loops), [(e, b.at(e[0])) for e in exits]))
