"""C04 - signature thresholds count distinct authorized keys with valid signatures."""
from ..core import Body, callee_name, op_const, op_place, norm, leaf_s, OK, F0
from ..guards import body_of, root_ids
from . import shared

EXPLANATION = (
    "Rules on the path-sensitive REGION of Metablock::verify (module-private helpers inlined, iterator adaptors and "
    "closures rewritten into the loops they stand for): D1 every Ok return is edge-dominated by threshold >= 1; D2 the "
    "table in which signature key ids are looked up holds entries (PublicKey::key_id(k), k) for the caller's keys k - "
    "read off the table's insertions, whatever builds it; D3 the counting loop iterates a map whose entries are "
    "(Signature::key_id(s), s) over self.signatures, so no key id is visited twice; D4 the countdown is initialised "
    "from `threshold` only, every other assignment is a decrement by one, and each decrement is edge-dominated by the "
    "Some edge of table.get(key id of the signature being verified) and the Ok edge of PublicKey::verify(<the key that "
    "lookup found>, msg, <that signature>); D5 the Ok return is dominated by countdown == 0, returns a clone of "
    "self.metadata, and msg is derived from self.metadata.to_bytes() only; D6 the scheme tables of PrivateKey::sign "
    "and PublicKey::verify are extracted per match arm and compared with the frozen correspondence of ring "
    "algorithms; D7 every assignment of PublicKey::verify's return value is an Err, or carries the Ok of ring's "
    "UnparsedPublicKey::verify(self.value, msg, sig.value) (no early Ok, no cache).")
DECIDED = ["D1 threshold >= 1", "D2 authorised keys de-duplicated by intrinsic key id", "D3 signatures de-duplicated by key id",
           "D4 countdown discipline", "D5 Ok only at countdown 0, payload = checked content", "D6 sign/verify scheme tables agree", "D7 PublicKey::verify is Ok only on ring's Ok for the same key, message and signature"]
UNDECIDED = ["order independence as a value-level statement (follows from D3-D5)", "cryptographic validity (ring)"]
TRUSTED = ["ring: UnparsedPublicKey::verify accepts exactly valid signatures of the given algorithm"]
ASSUMPTIONS = ["HashMap::collect keeps one entry per key"]
FLOORS = {"C04/D1": 1, "C04/D2": 1, "C04/D3": 1, "C04/D4": 3, "C04/D5": 3, "C04/D6": 9, "C04/D7": 1}

VERIFY_TABLE = {"Ed25519": "ring::signature::ED25519", "RsaSsaPssSha256": "ring::signature::RSA_PSS_2048_8192_SHA256",
                "RsaSsaPssSha512": "ring::signature::RSA_PSS_2048_8192_SHA512", "EcdsaP256Sha256": "ring::signature::ECDSA_P256_SHA256_ASN1"}
SIGN_TABLE = {("Rsa", "RsaSsaPssSha256"): "ring::signature::RSA_PSS_SHA256", ("Rsa", "RsaSsaPssSha512"): "ring::signature::RSA_PSS_SHA512",
              ("Ed25519", "Ed25519"): "call:Ed25519KeyPair::sign", ("Ecdsa", "EcdsaP256Sha256"): "call:EcdsaKeyPair::sign"}
ECDSA_KEY_ALG = "ring::signature::ECDSA_P256_SHA256_ASN1_SIGNING"


def statics_and_signs(b):
    """[(bb, token)] for ring statics and key-pair sign calls."""
    out = []
    for i in sorted(b.reach):
        blk = b.blocks[i]
        for st in blk["stmts"]:
            if st["k"] == "assign" and st["rv"]["k"] == "use":
                c = op_const(st["rv"]["op"])
                if c and c.get("static", "").startswith("ring::"):
                    out.append((i, c["static"]))
        t = blk["term"]
        if t and t["k"] == "call":
            n = callee_name(t) or ""
            if n.startswith("ring::") and n.endswith("::sign"):
                out.append((i, "call:" + "::".join(n.split("::")[-2:])))
    return out


def arm_of(b, bb):
    """Variant facts on SignatureScheme / PrivateKeyType that dominate bb."""
    d = {}
    for (e, f) in b.facts_dominating(bb):
        if f[0] == "variant":
            ty = (f[3] or "").split("::")[-1]
            if ty in ("SignatureScheme", "PrivateKeyType"):
                d[ty] = f[2]
    return d


def run(ctx):
    shared.check_threshold_core(ctx, prefix="C04")
    run_d6(ctx)


def run_d6(ctx):
    fx = ctx.fx
    # ---- D6
    vf = fx.fn_opt("crypto::PublicKey::verify")
    sf = fx.fn_opt("crypto::PrivateKey::sign")
    if vf is None or sf is None:
        ctx.bad("C04/D6", "anchors", "PublicKey::verify / PrivateKey::sign not found (failing closed)")
        return
    vb = ctx.region(None, policy="private", key=vf["key"], ps=True)
    sb = ctx.region(None, policy="private", key=sf["key"], ps=True)
    vt = {}
    for (bb, tok) in statics_and_signs(vb):
        arm = arm_of(vb, bb)
        vt.setdefault(arm.get("SignatureScheme", "?"), set()).add(tok)
    for scheme, want in VERIFY_TABLE.items():
        got = vt.get(scheme, set())
        ctx.inst("C04/D6", "verify arm %s" % scheme, got == {want}, "verification algorithm(s) on the %s arm: %s (expected %s)" % (scheme, sorted(got), want))
    extra = {k: v for k, v in vt.items() if k not in VERIFY_TABLE}
    ctx.inst("C04/D6", "verify has no other algorithm arms", not extra, "other arms selecting an algorithm: %s" % extra)
    # Unknown -> Err
    unk_ok = False
    for (e, tb, f) in vb.all_edge_facts():
        if f[0] == "variant" and f[2] == "Unknown" and (f[3] or "").endswith("SignatureScheme"):
            r = vb.reach_between(tb)
            unk_ok = not any(callee_name(vb.blocks[x]["term"]) and "ring::" in callee_name(vb.blocks[x]["term"]) for x in r
                             if vb.blocks[x]["term"] and vb.blocks[x]["term"]["k"] == "call")
    ctx.inst("C04/D6", "verify rejects an unknown scheme", unk_ok, "the Unknown(..) arm reaches no ring verification call")
    # ---- D7: PublicKey::verify says Ok only when ring has verified this signature over this message with this key
    RING_VERIFY = "ring::signature::UnparsedPublicKey::verify"
    vb_d6 = vb
    vb = ctx.region(None, policy="all-local", key=vf["key"], ps=True)     # accessors such as as_bytes()/value() inlined
    rv_calls = vb.calls_named(RING_VERIFY)
    def is_ring_ok(leaves):
        return bool(leaves) and all(l.kind == "call" and callee_name(l.data[1]) == RING_VERIFY and l.path == (OK, F0) for l in leaves)
    bad_ok = []
    n_defs = 0
    for d in vb.defs.get(0, []):
        if d.bb not in vb.reach:
            continue
        n_defs += 1
        if d.kind == "assign" and d.node["rv"]["k"] == "agg" and d.node["rv"].get("variant") == "Err":
            continue
        if d.kind == "assign" and d.node["rv"]["k"] == "agg" and d.node["rv"].get("variant") == "Ok":
            dom = False
            for (e, fa) in vb.facts_dominating(d.bb):
                if fa[0] == "variant" and fa[2] in ("Ok", "Continue"):
                    lv = vb.trace(fa[1], (("v", fa[2]), F0))
                    if is_ring_ok(lv):
                        dom = True
            if not dom:
                bad_ok.append("Ok(..) built at %s without a dominating Ok outcome of ring's verify" % vb.at(d.bb))
            continue
        if d.kind == "call" and callee_name(d.node) == "std::ops::FromResidual::from_residual":
            continue          # `?`: carries an Err only
        lv = vb.trace({"l": 0, "p": []}, (OK, F0)) if d.kind != "call" else vb._trace_call(d.bb, d.node, (OK, F0), None, None, False, set(), ())
        if not is_ring_ok(lv):
            bad_ok.append("return value at %s: Ok payload <- {%s}" % (vb.at(d.bb), ", ".join(leaf_s(vb, l) for l in lv)))
    args_ok = len(rv_calls) >= 1
    for (i, t) in rv_calls:
        msg, sg = root_ids(vb, t["args"][1]), root_ids(vb, t["args"][2])
        kl = vb.trace(t["args"][0], (), lambda tt: callee_name(tt) == "ring::signature::UnparsedPublicKey::new")
        key_ok = bool(kl) and all(l.kind == "call" and callee_name(l.data[1]) == "ring::signature::UnparsedPublicKey::new" and
                                  all(k == "param" and i_ == 1 and p[:1] == (("f", "value"),) for (k, i_, p) in root_ids(vb, l.data[1]["args"][1])) for l in kl)
        if not (msg == frozenset([("param", 2, ())]) and all(k == "param" and i_ == 3 and p[:1] == (("f", "value"),) for (k, i_, p) in sg) and sg and key_ok):
            args_ok = False
    ctx.inst("C04/D7", "PublicKey::verify returns Ok only from ring's verification of (this key, the message, the signature)",
             not bad_ok and args_ok and n_defs >= 1,
             "%d assignment(s) of the return value examined; problems: %s; ring verify arguments are (self.value, msg, sig.value): %s" % (n_defs, bad_ok, args_ok), vf["at"])
    vb = vb_d6
    st = {}
    for (bb, tok) in statics_and_signs(sb):
        arm = arm_of(sb, bb)
        st.setdefault((arm.get("PrivateKeyType", "?"), arm.get("SignatureScheme", "?")), set()).add(tok)
    for arm, want in SIGN_TABLE.items():
        got = st.get(arm, set())
        need = {want} if want.startswith("ring::") else {want}
        okk = need <= got and all(g == want or g.startswith("call:") for g in got)
        ctx.inst("C04/D6", "sign arm %s+%s" % arm, okk, "signing algorithm token(s) on the arm: %s (expected %s)" % (sorted(got), want))
    extra = {k: v for k, v in st.items() if k not in SIGN_TABLE}
    # a sign call shared by the scheme arms of one key type (the arms only select the algorithm object, the call follows the
    # inner match) sits under the key-type arm alone: it selects nothing by itself - the statics are judged on their own arms above
    shared_calls = {k: v for k, v in extra.items() if k[0] != "?" and k[1] == "?" and all(tok.startswith("call:") for tok in v)
                    and any(a[0] == k[0] for a in SIGN_TABLE)}
    extra = {k: v for k, v in extra.items() if k not in shared_calls}
    ctx.inst("C04/D6", "sign has no other (key type, scheme) arms", not extra, "other arms that sign: %s%s" % (
        extra, ("; sign call(s) shared by the scheme arms of a key type: %s" % sorted(shared_calls)) if shared_calls else ""))
    # ECDSA keys are created for the P-256/SHA-256/ASN.1 algorithm
    ec_sites = []
    for f in fx.doc["fns"]:
        if not f["path"].startswith("crypto::"):
            continue
        for bi, blk in enumerate(f["blocks"]):
            t = blk["term"]
            if t and t["k"] == "call" and not blk["cleanup"] and (callee_name(t) or "").startswith("ring::") and \
                    (callee_name(t) or "").split("::")[-2:][0] == "EcdsaKeyPair" and (callee_name(t) or "").split("::")[-1] in ("from_pkcs8", "generate_pkcs8", "from_private_key_and_public_key"):
                fb = body_of(fx, f["key"])
                lv = fb.trace(t["args"][0])
                toks = {(lf.data.get("static") if lf.kind == "const" else "?") for lf in lv}
                ec_sites.append((f["path"], toks, t["at"]))
    for (pth, toks, at) in ec_sites:
        ctx.inst("C04/D6", "ECDSA key pair algorithm in %s" % pth, toks == {ECDSA_KEY_ALG}, "EcdsaKeyPair created with %s" % sorted(toks), at)
    if not ec_sites:
        ctx.bad("C04/D6", "ECDSA key pair algorithm", "no EcdsaKeyPair construction site found")
