"""C20 - envelope pre-authentication encoding is injective and round-trips."""
from ..core import (Body, callee_name, norm, op_const, op_place, proj_path, leaf_s, OK, F0, F1, SOME, ELEM, short)
from ..guards import root_ids, body_of, const_int, def_call
from . import C14
from .subl import FMT

EXPLANATION = (
    "Provenance rules on PaeV1::pae_pack / pae_unpack and the private length parser. D1 (pack): the header is formatted "
    "from exactly {prefix constant, separator constant, len(type), type, len(payload)} and the result is "
    "concat([header bytes, payload]) with the payload operand being the parameter itself. D2 (unpack): the returned type "
    "is from_utf8/parse::<String> of get(rest1, 0..n1) and the returned payload is to_vec(get(rest2, 0..n2)), where "
    "(n1, rest1) and (n2, rest2) are the two results of the length parser, the second one applied to get(rest1, n1+1..); "
    "no other transformation (trim, lossy conversion ..) lies on those chains; the parser splits at most once at the "
    "separator byte that equals the pack separator, and the prefix stripped equals the prefix packed. D3: the decoder "
    "has no panic-capable construct (C14 discharge rules restricted to the envelope module).")
DECIDED = ["D1 length prefixes and verbatim payload on pack", "D2 decoder takes exactly what the lengths say, untransformed", "D3 decoding never panics"]
UNDECIDED = ["unpack(pack(t,p)) == (p,t) and injectivity for all byte strings as value-level statements (the field order lives in the format template, which the three pack fixtures pin)"]
TRUSTED = ["std formatting writes decimal lengths without sign or padding"]
ASSUMPTIONS = []
FLOORS = {"C20/D1": 2, "C20/D2": 8, "C20/D3": 1}

IDENTITY = {"std::ops::Try::branch", "std::result::Result::map_err", "std::option::Option::ok_or_else", "std::option::Option::ok_or",
            "std::option::Option::and_then", "std::str::from_utf8", "core::str::from_utf8", "core::str::parse", "std::slice::to_vec",
            "core::slice::to_vec", "std::string::String::from", "std::string::ToString::to_string", "std::borrow::ToOwned::to_owned"}
TEXTRA = {
    "std::str::from_utf8": [((OK, F0), 0, ())], "core::str::from_utf8": [((OK, F0), 0, ())],
    "core::str::parse": [((OK, F0), 0, ())],
    "std::slice::to_vec": [((), 0, ())], "core::slice::to_vec": [((), 0, ())],
}


def find(fx, suffix):
    c = [g for g in fx.doc["fns"] if g["path"].endswith(suffix)]
    return c[0] if len(c) == 1 else None


def via_ok(lf):
    allowed = {short(x) for x in IDENTITY} | {"Iterator::next"}
    return all(v in allowed for v in lf.via)


def run(ctx):
    fx = ctx.fx
    pack = find(fx, "DSSEParser>::pae_pack")
    unpack = find(fx, "DSSEParser>::pae_unpack")
    if not pack or not unpack:
        ctx.bad("C20/D1", "anchors", "PaeV1::pae_pack / pae_unpack not found (failing closed)")
        return
    # ---------------- D1 pack
    pb = ctx.region(None, policy="private", key=pack["key"], ps=True)
    consts = {"prefix": None, "sep": None}

    def classify(lv):
        kinds = set()
        for lf in lv:
            if lf.kind == "const":
                s_ = lf.data.get("str")
                if s_ is not None and s_.strip() == "" and len(s_) == 1:
                    kinds.add("separator")
                    consts["sep"] = s_
                else:
                    kinds.add("prefix")
                    consts["prefix"] = s_
            elif lf.kind == "call" and callee_name(lf.data[1]) == "std::string::String::len" and root_ids(pb, lf.data[1]["args"][0]) == frozenset([("param", 1, ())]):
                kinds.add("len(type)")
            elif lf.kind == "call" and callee_name(lf.data[1]) == "core::slice::len" and root_ids(pb, lf.data[1]["args"][0]) == frozenset([("param", 2, ())]):
                kinds.add("len(payload)")
            elif lf.kind == "call" and callee_name(lf.data[1]) == "core::slice::len" and (lambda rl_: bool(rl_) and all(
                    x.kind == "param" and x.data == 1 and not x.path and set(x.via) <= {"String::as_bytes", "str::as_bytes", "String::as_str", "Deref::deref"} for x in rl_))(
                    pb.trace(lf.data[1]["args"][0], (), None, {"__flow_all__": lambda tt: callee_name(tt) in ("core::str::as_bytes", "std::string::String::as_bytes", "std::string::String::as_str", "std::ops::Deref::deref")})):
                kinds.add("len(type)")      # the byte length of the type string, taken from its bytes
            elif lf.kind == "unop" and lf.data[2].get("op") == "PtrMetadata" and root_ids(pb, lf.data[2]["a"]) == frozenset([("param", 2, ())]):
                kinds.add("len(payload)")
            elif lf.kind == "param" and lf.data == 1 and not lf.path:
                kinds.add("type")
            elif lf.kind == "param" and lf.data == 2 and not lf.path:
                kinds.add("payload")
            else:
                kinds.add("other:" + leaf_s(pb, lf))
        return kinds
    rl0 = pb.trace({"l": 0, "p": []})
    parts_form = False
    if len(rl0) == 1 and rl0[0].kind == "call" and callee_name(rl0[0].data[1]) in ("std::slice::concat", "core::slice::concat"):
        arr0 = pb.trace(rl0[0].data[1]["args"][0])
        if len(arr0) == 1 and arr0[0].kind == "agg" and arr0[0].data[2].get("agg") == "array" and len(arr0[0].data[2]["ops"]) > 2:
            # the encoding written as one concatenation of parts: the ORDER of the parts is checked
            parts_form = True
            seq = []
            for o in arr0[0].data[2]["ops"]:
                k_ = classify(pb.trace(o))
                seq.append(next(iter(k_)) if len(k_) == 1 else "mixed:" + ",".join(sorted(k_)))
            want_seq = ["prefix", "separator", "len(type)", "separator", "type", "separator", "len(payload)", "separator", "payload"]
            ctx.inst("C20/D1", "header fields", seq == want_seq, "parts concatenated: %s (expected %s)" % (seq, want_seq), pack["at"])
            ctx.inst("C20/D1", "payload appended verbatim after the header", seq == want_seq and all(
                not lf.via for lf in pb.trace(arr0[0].data[2]["ops"][-1])), "the last part is the payload parameter itself", pack["at"])
    if len(rl0) == 1 and rl0[0].kind == "call" and callee_name(rl0[0].data[1]) in ("std::slice::join", "core::slice::join", "alloc::slice::join") and not parts_form:
        # the encoding written as fields.join(separator): every field once, the separator between any two
        jt = rl0[0].data[1]
        THRU = {"__flow_all__": lambda tt: callee_name(tt) in ("core::str::as_bytes", "std::string::String::as_bytes", "std::string::ToString::to_string",
                                                               "std::string::String::as_str", "std::ops::Deref::deref")}
        arrj = pb.trace(jt["args"][0])
        sl = pb.trace(jt["args"][1])
        sepv = [l.data.get("int") for l in sl if l.kind == "const" and l.data.get("int") is not None]
        if len(arrj) == 1 and arrj[0].kind == "agg" and arrj[0].data[2].get("agg") == "array" and len(sl) == 1 and len(sepv) == 1 and 0 < sepv[0] < 128:
            parts_form = True
            consts["sep"] = chr(sepv[0])
            seq = []
            for o in arrj[0].data[2]["ops"]:
                k_ = classify(pb.trace(o, (), None, THRU))
                seq.append(next(iter(k_)) if len(k_) == 1 else "mixed:" + ",".join(sorted(k_)))
            want_seq = ["prefix", "len(type)", "type", "len(payload)", "payload"]
            ctx.inst("C20/D1", "header fields", seq == want_seq and consts["sep"].strip() == "", "fields joined by %r: %s (expected %s)" % (consts["sep"], seq, want_seq), pack["at"])
            ctx.inst("C20/D1", "payload appended verbatim after the header", seq == want_seq and all(
                not lf.via for lf in pb.trace(arrj[0].data[2]["ops"][-1])), "the last field is the payload parameter itself", pack["at"])
    if len(rl0) == 1 and rl0[0].kind == "call" and callee_name(rl0[0].data[1]) in ("std::vec::Vec::new", "std::vec::Vec::with_capacity") and not parts_form \
            and not rl0[0].data[1]["dst"]["p"]:
        # the encoding appended piece by piece to a fresh vector (helpers inlined): the ORDER of the appends is checked
        m = rl0[0].data[1]["dst"]["l"]
        THRU2 = {"__flow_all__": lambda tt: callee_name(tt) in ("core::str::as_bytes", "std::string::String::as_bytes", "std::string::ToString::to_string",
                                                                "std::string::String::as_str", "std::ops::Deref::deref")}
        muts = [(bb_, t_) for (bb_, t_, ai_) in pb.mutators.get(m, []) if ai_ == 0 and bb_ in pb.reach]
        names_ok = all(callee_name(t_) in ("std::vec::Vec::extend_from_slice", "std::vec::Vec::push", "std::iter::Extend::extend") for (_b, t_) in muts)
        chain = sorted(muts, key=lambda x: sum(1 for y in muts if pb.dom_plain(y[0], x[0])))
        linear = all(pb.dom_plain(chain[i_][0], chain[i_ + 1][0]) for i_ in range(len(chain) - 1)) and not any(x[0] in l_ for x in muts for l_ in pb.loops().values())
        if muts and names_ok and linear:
            parts_form = True
            seq = []
            for (_b, t_) in chain:
                if callee_name(t_) == "std::vec::Vec::push":
                    lv_ = pb.trace(t_["args"][1])
                    cv = [l.data.get("int") for l in lv_ if l.kind == "const"]
                    if len(lv_) == 1 and len(cv) == 1 and cv[0] is not None and 0 < cv[0] < 128 and chr(cv[0]).strip() == "":
                        consts["sep"] = chr(cv[0])
                        seq.append("separator")
                    else:
                        seq.append("byte?")
                else:
                    k_ = classify(pb.trace(t_["args"][1], (), None, THRU2))
                    seq.append(next(iter(k_)) if len(k_) == 1 else "mixed:" + ",".join(sorted(k_)))
            want_seq = ["prefix", "separator", "len(type)", "separator", "type", "separator", "len(payload)", "separator", "payload"]
            ctx.inst("C20/D1", "header fields", seq == want_seq, "pieces appended in order: %s (expected %s)" % (seq, want_seq), pack["at"])
            ctx.inst("C20/D1", "payload appended verbatim after the header", seq == want_seq and all(
                not lf.via for lf in pb.trace(chain[-1][1]["args"][1])), "the last piece is the payload parameter itself", pack["at"])
    prefix_const, sep_const = consts["prefix"], consts["sep"]
    if parts_form:
        kinds = set()
    else:
        args = []
        for i, t in pb.calls():
            if (callee_name(t) or "").startswith("core::fmt::rt::Argument::new_"):
                args.append(pb.trace(t["args"][0]))
        kinds = set()
        for lv in args:
            kinds |= classify(lv)
        prefix_const, sep_const = consts["prefix"], consts["sep"]
        want = {"prefix", "separator", "len(type)", "type", "len(payload)"}
        ctx.inst("C20/D1", "header fields", kinds == want, "header is formatted from %s (expected %s); prefix %r separator %r" % (sorted(kinds), sorted(want), prefix_const, sep_const), pack["at"])
    rl = pb.trace({"l": 0, "p": []})
    okc = len(rl) == 1 and rl[0].kind == "call" and callee_name(rl[0].data[1]) in ("std::slice::concat", "core::slice::concat")
    detail = "result <- {%s}" % ", ".join(leaf_s(pb, l) for l in rl)
    if okc:
        arr = pb.trace(rl[0].data[1]["args"][0])
        okc = len(arr) == 1 and arr[0].kind == "agg" and arr[0].data[2].get("agg") == "array" and len(arr[0].data[2]["ops"]) == 2
        if okc:
            ops = arr[0].data[2]["ops"]
            payload_direct = root_ids(pb, ops[1]) == frozenset([("param", 2, ())]) and all(not lf.via for lf in pb.trace(ops[1]))
            hl = pb.trace(ops[0], (), None, FMT)
            header_from_format = any("fmt::format" in lf.via or "format" in " ".join(lf.via) for lf in hl) or any(lf.kind == "param" and lf.data == 1 for lf in hl)
            okc = payload_direct and header_from_format
            detail = "concat([header, payload]): payload operand is the parameter itself: %s; first operand is the formatted header: %s" % (payload_direct, header_from_format)
    if not okc:
        # header.into_bytes() followed by exactly one extend_from_slice(payload)
        rl2 = pb.trace({"l": 0, "p": []}, (), None, None, True)
        base = [l for l in rl2 if l.kind != "mut"]
        muts = [l for l in rl2 if l.kind == "mut"]
        if len(base) == 1 and base[0].kind == "call" and callee_name(base[0].data[1]) in ("std::string::String::into_bytes",) and len(muts) == 1:
            mt = muts[0].data[1]
            hl = pb.trace(base[0].data[1]["args"][0], (), None, FMT)
            header_from_format = any("fmt::format" in lf.via or "format" in " ".join(lf.via) for lf in hl) or any(lf.kind == "param" and lf.data == 1 for lf in hl)
            payload_direct = callee_name(mt) in ("std::vec::Vec::extend_from_slice", "std::iter::Extend::extend") and muts[0].data[2] == 0 and \
                root_ids(pb, mt["args"][1]) == frozenset([("param", 2, ())]) and all(not lf.via for lf in pb.trace(mt["args"][1]))
            okc = header_from_format and payload_direct
            detail = "header.into_bytes() extended once by the payload parameter itself: %s; the vector starts as the formatted header: %s" % (payload_direct, header_from_format)
    if not parts_form:
        ctx.inst("C20/D1", "payload appended verbatim after the header", okc, detail, pack["at"])
    # ---------------- D2 unpack (judged in the decoder's region: every private helper - the length parser, a cursor type -
    # inlined; the anchors are the splits at the separator, not the functions they are written in)
    ub = ctx.region(None, policy="private", key=unpack["key"], ps=True)
    SPLITN = "core::slice::splitn"
    STOP2 = lambda t: callee_name(t) in ("core::slice::get", SPLITN, "core::slice::strip_prefix", "core::num::checked_add")
    splits = ub.calls_named(SPLITN)
    ctx.inst("C20/D2", "two length fields are parsed", len(splits) == 2, "%d split(s) at the separator in the decoder (helpers inlined)" % len(splits), unpack["at"])
    if len(splits) != 2:
        return

    def split_of(x, path=()):
        """The split(s) a value is a piece of (through from_utf8 / parse / ? only); None if anything else contributes."""
        lv = ub.trace(x, path, STOP2, TEXTRA)
        if not lv or not all(l.kind == "call" and callee_name(l.data[1]) == SPLITN and l.path == (ELEM,) and via_ok(l) for l in lv):
            return None
        return {l.data[0] for l in lv}

    def is_len(x, sbb):
        """x is parse::<usize>(from_utf8(piece of split sbb))"""
        lv = ub.trace(x, (), lambda t: callee_name(t) == "core::str::parse" or STOP2(t), TEXTRA)
        if not lv or not all(l.kind == "call" and callee_name(l.data[1]) == "core::str::parse" and l.path == (OK, F0) and via_ok(l)
                             and "usize" in " ".join(l.data[1].get("generics", [])) for l in lv):
            return False
        return all(split_of(l.data[1]["args"][0]) == {sbb} for l in lv)

    def get_leaf(path, what):
        lv = ub.trace({"l": 0, "p": []}, path, STOP2, TEXTRA)
        if len(lv) != 1 or lv[0].kind != "call" or callee_name(lv[0].data[1]) != "core::slice::get" or lv[0].path != (SOME, F0):
            ctx.bad("C20/D2", what + " is a checked sub-slice", "%s <- {%s}" % (what, ", ".join(leaf_s(ub, l) for l in lv)), unpack["at"])
            return None
        if not via_ok(lv[0]):
            ctx.bad("C20/D2", what + " is returned untransformed", "%s passes through %s" % (what, [v for v in lv[0].via]), unpack["at"])
            return None
        ctx.ok("C20/D2", what + " is returned untransformed", "%s <- get(..) via %s" % (what, list(lv[0].via)), unpack["at"])
        return lv[0].data

    def range_of(gbb, gt):
        lv = ub.trace(gt["args"][1], (), None, None, False, None, (), (gbb, 10 ** 9))
        if len(lv) == 1 and lv[0].kind == "agg" and lv[0].data[2].get("agg") == "adt":
            rv = lv[0].data[2]
            return rv["adt"].split("::")[-1], dict(zip(rv["fields"], rv["ops"])), (lv[0].data[0], lv[0].data[1])
        return None, {}, None

    field_split = {}
    for (what, path) in (("type", (OK, F0, F1)), ("payload", (OK, F0, F0))):
        g = get_leaf(path, what)
        if g is None:
            continue
        gbb, gt = g
        kind, fl, _at = range_of(gbb, gt)
        start0 = (kind == "Range" and const_int(ub, fl.get("start")) == 0) or kind == "RangeTo"
        rs = split_of(gt["args"][0])
        one = rs is not None and len(rs) == 1
        okr = start0 and one and fl.get("end") is not None and is_len(fl["end"], next(iter(rs)))
        if one:
            field_split[what] = next(iter(rs))
        ctx.inst("C20/D2", "%s = rest[0..len] of the same length field" % what, okr,
                 "get(rest, %s): starts at 0: %s; `rest` is the piece behind one separator split: %s; the end is the decimal usize parsed "
                 "from the piece in front of that same split: %s" % (kind, start0, one, okr), gt["at"])
    s1, s2 = field_split.get("type"), field_split.get("payload")
    ctx.inst("C20/D2", "type and payload come from different length fields", s1 is not None and s2 is not None and s1 != s2,
             "splits: type %s, payload %s" % (s1, s2), unpack["at"])
    if s1 is None or s2 is None or s1 == s2:
        return
    t2 = ub.blocks[s2]["term"]
    # the second split works on rest1[n1+1..]
    lv = ub.trace(t2["args"][0], (), STOP2, TEXTRA, False, None, (), (s2, 10 ** 9))
    ok2 = False
    detail = "second length field parsed from {%s}" % ", ".join(leaf_s(ub, l) for l in lv)
    if lv and all(l.kind == "call" and callee_name(l.data[1]) == "core::slice::get" and l.path == (SOME, F0) and via_ok(l) for l in lv):
        ok2 = True
        for l in lv:
            gbb, gt = l.data
            kind, fl, _at = range_of(gbb, gt)
            st = fl.get("start")
            recv = split_of(gt["args"][0]) == {s1}
            add_ok = False
            if kind == "RangeFrom" and st is not None:
                sl = ub.trace(st, (), lambda tt: callee_name(tt) == "core::num::checked_add")
                add_ok = bool(sl) and all(x.kind == "call" and callee_name(x.data[1]) == "core::num::checked_add" and x.path == (SOME, F0) and
                                          is_len(x.data[1]["args"][0], s1) and const_int(ub, x.data[1]["args"][1]) == 1 for x in sl)
            ok2 = ok2 and recv and add_ok
            detail = "second length field parsed from rest1.get(start..): rest1 is the piece behind the first split: %s; start = checked_add(n1, 1): %s" % (recv, add_ok)
    ctx.inst("C20/D2", "second length field starts one separator after the type", ok2, detail, t2["at"])
    # the splits themselves: at most once, at the separator byte the encoder writes
    for (si, (sbb, st_)) in enumerate(sorted(splits, key=lambda x: (x[0] != s1, x[0]))):
        sepb = None
        p = op_place(st_["args"][2])
        d = ub.single_def(p["l"]) if p else None
        if d and d.kind == "assign" and d.node["rv"].get("agg") == "closure" and d.node["rv"]["closure_key"] in fx.fns:
            clb = body_of(fx, d.node["rv"]["closure_key"])
            for blk in clb.blocks:
                for st in blk["stmts"]:
                    if st["k"] == "assign" and st["rv"]["k"] == "binop" and st["rv"]["op"] == "Eq":
                        for o in (st["rv"]["a"], st["rv"]["b"]):
                            v = const_int(clb, o)
                            if v is not None:
                                sepb = v
        two = const_int(ub, st_["args"][1]) == 2
        ctx.inst("C20/D2", "length field %d: split at most once, at the separator the encoder writes" % (si + 1),
                 two and sepb is not None and sep_const is not None and chr(sepb) == sep_const,
                 "splitn(2): %s; separator byte %s vs pack separator %r" % (two, sepb, sep_const), st_["at"])
    # prefix
    sp = ub.calls_named("core::slice::strip_prefix")
    okp = False
    if len(sp) == 1:
        pl = ub.trace(sp[0][1]["args"][1], (), None, FMT)
        consts = sorted(l.data.get("str") for l in pl if l.kind == "const" and l.data.get("str") is not None)
        okp = prefix_const in consts and sep_const in consts and all(l.kind == "const" for l in pl) and root_ids(ub, sp[0][1]["args"][0]) == frozenset([("param", 1, ())])
        t1 = ub.blocks[s1]["term"]
        l1 = ub.trace(t1["args"][0], (), STOP2, TEXTRA, False, None, (), (s1, 10 ** 9))
        first_in = bool(l1) and all(l.kind == "call" and l.data[0] == sp[0][0] and l.path == (SOME, F0) and via_ok(l) for l in l1)
        ctx.inst("C20/D2", "decoder strips the prefix the encoder writes", okp and first_in,
                 "strip_prefix argument built from constants %s; the first length field is parsed from what is left: %s" % (consts, first_in), sp[0][1]["at"])
    else:
        ctx.bad("C20/D2", "decoder strips the prefix the encoder writes", "expected one strip_prefix call, found %d" % len(sp))
    # ---------------- D3
    n = 0
    # every local function and closure the decoder can reach (helpers called from error-message closures included)
    dec_keys = [unpack["key"]] + [k for k in sorted(ctx.cg.reachable([unpack["key"]])) if k != unpack["key"] and not fx.fns[k].get("exp")]
    for f in [fx.fns[k] for k in dec_keys]:
        b = body_of(fx, f["key"])
        for (bb, t, kind, descr) in C14.sites_of(f):
            if bb not in b.reach:
                continue
            n += 1
            res = C14.discharge(fx, b, bb, t, kind, descr, ctx.cg, f["key"])
            ctx.inst("C20/D3", "%s | %s" % (f["path"].split("::")[-1], descr), res is not None,
                     ("%s: %s" % res) if res else "panic-capable construct in the decoder with no dominating guard", t["at"])
    ctx.ok("C20/D3", "decoder panic inventory", "%d panic-capable construct(s) in the decoder, each discharged above" % n)
