"""C20 - envelope pre-authentication encoding is injective and round-trips."""
from ..core import (Body, callee_name, norm, op_const, op_place, proj_path, leaf_s, OK, F0, F1, SOME, ELEM, short)
from ..guards import root_ids, body_of, const_int, def_call
from . import C14
from .subl import FMT

EXPLANATION = (
    "Provenance rules on PaeV1::pae_pack / pae_unpack and the private length parser. D1 (pack): the header is formatted "
    "from exactly {prefix constant, separator constant, len(type), type, len(payload)} and the result is "
    "concat([header bytes, payload]) with the payload operand being the parameter itself. D2 (unpack): the returned type "
    "is from_utf8/parse::<String> of get(rest1, 0..n1) and the returned payload is to_vec(get(rest2, 0..n2)), where "
    "(n1, rest1) and (n2, rest2) are the two results of the length parser, the second one applied to get(rest1, n1+1..); "
    "no other transformation (trim, lossy conversion ..) lies on those chains; the parser splits at most once at the "
    "separator byte that equals the pack separator, and the prefix stripped equals the prefix packed. D3: the decoder "
    "has no panic-capable construct (C14 discharge rules restricted to the envelope module).")
DECIDED = ["D1 length prefixes and verbatim payload on pack", "D2 decoder takes exactly what the lengths say, untransformed", "D3 decoding never panics"]
UNDECIDED = ["unpack(pack(t,p)) == (p,t) and injectivity for all byte strings as value-level statements (the field order lives in the format template, which the three pack fixtures pin)"]
TRUSTED = ["std formatting writes decimal lengths without sign or padding"]
ASSUMPTIONS = []
FLOORS = {"C20/D1": 2, "C20/D2": 8, "C20/D3": 1}

IDENTITY = {"std::ops::Try::branch", "std::result::Result::map_err", "std::option::Option::ok_or_else", "std::option::Option::ok_or",
            "std::option::Option::and_then", "std::str::from_utf8", "core::str::from_utf8", "core::str::parse", "std::slice::to_vec",
            "core::slice::to_vec", "std::string::String::from", "std::string::ToString::to_string", "std::borrow::ToOwned::to_owned"}
TEXTRA = {
    "std::str::from_utf8": [((OK, F0), 0, ())], "core::str::from_utf8": [((OK, F0), 0, ())],
    "core::str::parse": [((OK, F0), 0, ())],
    "std::slice::to_vec": [((), 0, ())], "core::slice::to_vec": [((), 0, ())],
}
LEN_PARSER = {"name": None}      # the private length-field parser, found by role (find_length_parser)
STOP = lambda t: callee_name(t) in ("core::slice::get", LEN_PARSER["name"], "core::slice::splitn", "core::slice::strip_prefix")


def find_length_parser(fx, cg, unpack):
    """The decoder's length-field parser, by role: the local function, reachable from pae_unpack, that returns
    Result<(usize, &[u8]), _> (a parsed length and the rest of the input)."""
    c = [fx.fns[k] for k in cg.reachable([unpack["key"]]) if k != unpack["key"] and fx.fns[k]["kind"] in ("Fn", "AssocFn")
         and fx.fns[k]["locals"][0]["ty"].replace(" ", "").startswith("std::result::Result<(usize,&")]
    return c[0] if len(c) == 1 else None


def find(fx, suffix):
    c = [g for g in fx.doc["fns"] if g["path"].endswith(suffix)]
    return c[0] if len(c) == 1 else None


def via_ok(lf):
    allowed = {short(x) for x in IDENTITY} | {"Iterator::next"}
    return all(v in allowed for v in lf.via)


def run(ctx):
    fx = ctx.fx
    pack = find(fx, "DSSEParser>::pae_pack")
    unpack = find(fx, "DSSEParser>::pae_unpack")
    cons = find_length_parser(fx, ctx.cg, unpack) if unpack else None
    LEN_PARSER["name"] = cons["path"] if cons else None
    if not pack or not unpack:
        ctx.bad("C20/D1", "anchors", "PaeV1::pae_pack / pae_unpack not found (failing closed)")
        return
    # ---------------- D1 pack
    POLICY = ("private-except", frozenset([LEN_PARSER["name"]]))
    pb = ctx.region(None, policy=POLICY, key=pack["key"], ps=True)
    consts = {"prefix": None, "sep": None}

    def classify(lv):
        kinds = set()
        for lf in lv:
            if lf.kind == "const":
                s_ = lf.data.get("str")
                if s_ is not None and s_.strip() == "" and len(s_) == 1:
                    kinds.add("separator")
                    consts["sep"] = s_
                else:
                    kinds.add("prefix")
                    consts["prefix"] = s_
            elif lf.kind == "call" and callee_name(lf.data[1]) == "std::string::String::len" and root_ids(pb, lf.data[1]["args"][0]) == frozenset([("param", 1, ())]):
                kinds.add("len(type)")
            elif lf.kind == "call" and callee_name(lf.data[1]) == "core::slice::len" and root_ids(pb, lf.data[1]["args"][0]) == frozenset([("param", 2, ())]):
                kinds.add("len(payload)")
            elif lf.kind == "unop" and lf.data[2].get("op") == "PtrMetadata" and root_ids(pb, lf.data[2]["a"]) == frozenset([("param", 2, ())]):
                kinds.add("len(payload)")
            elif lf.kind == "param" and lf.data == 1 and not lf.path:
                kinds.add("type")
            elif lf.kind == "param" and lf.data == 2 and not lf.path:
                kinds.add("payload")
            else:
                kinds.add("other:" + leaf_s(pb, lf))
        return kinds
    rl0 = pb.trace({"l": 0, "p": []})
    parts_form = False
    if len(rl0) == 1 and rl0[0].kind == "call" and callee_name(rl0[0].data[1]) in ("std::slice::concat", "core::slice::concat"):
        arr0 = pb.trace(rl0[0].data[1]["args"][0])
        if len(arr0) == 1 and arr0[0].kind == "agg" and arr0[0].data[2].get("agg") == "array" and len(arr0[0].data[2]["ops"]) > 2:
            # the encoding written as one concatenation of parts: the ORDER of the parts is checked
            parts_form = True
            seq = []
            for o in arr0[0].data[2]["ops"]:
                k_ = classify(pb.trace(o))
                seq.append(next(iter(k_)) if len(k_) == 1 else "mixed:" + ",".join(sorted(k_)))
            want_seq = ["prefix", "separator", "len(type)", "separator", "type", "separator", "len(payload)", "separator", "payload"]
            ctx.inst("C20/D1", "header fields", seq == want_seq, "parts concatenated: %s (expected %s)" % (seq, want_seq), pack["at"])
            ctx.inst("C20/D1", "payload appended verbatim after the header", seq == want_seq and all(
                not lf.via for lf in pb.trace(arr0[0].data[2]["ops"][-1])), "the last part is the payload parameter itself", pack["at"])
    prefix_const, sep_const = consts["prefix"], consts["sep"]
    if parts_form:
        kinds = set()
    else:
        args = []
        for i, t in pb.calls():
            if (callee_name(t) or "").startswith("core::fmt::rt::Argument::new_"):
                args.append(pb.trace(t["args"][0]))
        kinds = set()
        for lv in args:
            kinds |= classify(lv)
        prefix_const, sep_const = consts["prefix"], consts["sep"]
        want = {"prefix", "separator", "len(type)", "type", "len(payload)"}
        ctx.inst("C20/D1", "header fields", kinds == want, "header is formatted from %s (expected %s); prefix %r separator %r" % (sorted(kinds), sorted(want), prefix_const, sep_const), pack["at"])
    rl = pb.trace({"l": 0, "p": []})
    okc = len(rl) == 1 and rl[0].kind == "call" and callee_name(rl[0].data[1]) in ("std::slice::concat", "core::slice::concat")
    detail = "result <- {%s}" % ", ".join(leaf_s(pb, l) for l in rl)
    if okc:
        arr = pb.trace(rl[0].data[1]["args"][0])
        okc = len(arr) == 1 and arr[0].kind == "agg" and arr[0].data[2].get("agg") == "array" and len(arr[0].data[2]["ops"]) == 2
        if okc:
            ops = arr[0].data[2]["ops"]
            payload_direct = root_ids(pb, ops[1]) == frozenset([("param", 2, ())]) and all(not lf.via for lf in pb.trace(ops[1]))
            hl = pb.trace(ops[0], (), None, FMT)
            header_from_format = any("fmt::format" in lf.via or "format" in " ".join(lf.via) for lf in hl) or any(lf.kind == "param" and lf.data == 1 for lf in hl)
            okc = payload_direct and header_from_format
            detail = "concat([header, payload]): payload operand is the parameter itself: %s; first operand is the formatted header: %s" % (payload_direct, header_from_format)
    if not okc:
        # header.into_bytes() followed by exactly one extend_from_slice(payload)
        rl2 = pb.trace({"l": 0, "p": []}, (), None, None, True)
        base = [l for l in rl2 if l.kind != "mut"]
        muts = [l for l in rl2 if l.kind == "mut"]
        if len(base) == 1 and base[0].kind == "call" and callee_name(base[0].data[1]) in ("std::string::String::into_bytes",) and len(muts) == 1:
            mt = muts[0].data[1]
            hl = pb.trace(base[0].data[1]["args"][0], (), None, FMT)
            header_from_format = any("fmt::format" in lf.via or "format" in " ".join(lf.via) for lf in hl) or any(lf.kind == "param" and lf.data == 1 for lf in hl)
            payload_direct = callee_name(mt) in ("std::vec::Vec::extend_from_slice", "std::iter::Extend::extend") and muts[0].data[2] == 0 and \
                root_ids(pb, mt["args"][1]) == frozenset([("param", 2, ())]) and all(not lf.via for lf in pb.trace(mt["args"][1]))
            okc = header_from_format and payload_direct
            detail = "header.into_bytes() extended once by the payload parameter itself: %s; the vector starts as the formatted header: %s" % (payload_direct, header_from_format)
    if not parts_form:
        ctx.inst("C20/D1", "payload appended verbatim after the header", okc, detail, pack["at"])
    # ---------------- D2 unpack
    ub = ctx.region(None, policy=POLICY, key=unpack["key"], ps=True)
    cons_calls = ub.calls_named(LEN_PARSER["name"]) if LEN_PARSER["name"] else []
    ctx.inst("C20/D2", "two length fields are parsed", len(cons_calls) == 2, "%d call(s) of the length parser" % len(cons_calls), unpack["at"])
    if len(cons_calls) != 2:
        return
    (c1, t1), (c2, t2) = sorted(cons_calls)
    def get_leaf(path, what):
        lv = ub.trace({"l": 0, "p": []}, path, STOP, TEXTRA)
        if len(lv) != 1 or lv[0].kind != "call" or callee_name(lv[0].data[1]) != "core::slice::get" or lv[0].path != (SOME, F0):
            ctx.bad("C20/D2", what + " is a checked sub-slice", "%s <- {%s}" % (what, ", ".join(leaf_s(ub, l) for l in lv)), unpack["at"])
            return None
        if not via_ok(lv[0]):
            ctx.bad("C20/D2", what + " is returned untransformed", "%s passes through %s" % (what, [v for v in lv[0].via]), unpack["at"])
            return None
        ctx.ok("C20/D2", what + " is returned untransformed", "%s <- get(..) via %s" % (what, list(lv[0].via)), unpack["at"])
        return lv[0].data[1]
    def range_of(gt):
        p = op_place(gt["args"][1])
        d = ub.single_def(p["l"]) if p is not None and not p["p"] else None
        if d and d.kind == "assign" and d.node["rv"].get("agg") == "adt":
            rv = d.node["rv"]
            return rv["adt"].split("::")[-1], dict(zip(rv["fields"], rv["ops"]))
        return None, {}
    def is_cons(op, ci, which):
        r = root_ids(ub, op)
        return r == frozenset([("call", ci, (OK, F0, which))])
    for (what, path, ci) in (("type", (OK, F0, F1), c1), ("payload", (OK, F0, F0), c2)):
        gt = get_leaf(path, what)
        if gt is None:
            continue
        kind, fl = range_of(gt)
        start0 = (kind == "Range" and const_int(ub, fl.get("start")) == 0) or kind == "RangeTo"
        okr = start0 and is_cons(fl.get("end"), ci, F0) and is_cons(gt["args"][0], ci, F1)
        ctx.inst("C20/D2", "%s = rest[0..len] of the same length field" % what, okr,
                 "get(%s, %s{start: %s, end: %s})" % ({str(x) for x in root_ids(ub, gt["args"][0])}, kind,
                                                       const_int(ub, fl.get("start")) if fl.get("start") else None,
                                                       {str(x) for x in root_ids(ub, fl["end"])} if fl.get("end") else None), gt["at"])
    # second parser call consumes rest1[n1+1..]
    lv = ub.trace(t2["args"][0], (), STOP, TEXTRA)
    ok2 = False
    detail = "second length field parsed from {%s}" % ", ".join(leaf_s(ub, l) for l in lv)
    # the argument may come through Option::and_then(|start| raw.get(start..)): follow the closure
    for lf in lv:
        if lf.kind == "call" and callee_name(lf.data[1]) == "core::slice::get":
            kind, fl = range_of(lf.data[1])
            st = fl.get("start")
            if kind == "RangeFrom" and st is not None and is_cons(lf.data[1]["args"][0], c1, F1):
                # start = n1 + 1 (checked)
                sl = ub.trace(st, (), lambda tt: callee_name(tt) == "core::num::checked_add")
                add_ok = bool(sl) and all(l.kind == "call" and callee_name(l.data[1]) == "core::num::checked_add" and l.path == (SOME, F0) and
                                          is_cons(l.data[1]["args"][0], c1, F0) and const_int(ub, l.data[1]["args"][1]) == 1 for l in sl)
                ok2 = add_ok
                detail = "second length field parsed from rest1.get(start..), start = checked_add(n1, 1): %s" % add_ok
    if not ok2:
        for i, t in ub.calls_named("std::option::Option::and_then"):
            ck = None
            p = op_place(t["args"][1])
            d = ub.single_def(p["l"]) if p else None
            if d and d.kind == "assign" and d.node["rv"].get("agg") == "closure":
                ck = d.node["rv"]["closure_key"]
                ups = d.node["rv"]["ops"]
            if ck in fx.fns:
                cb = body_of(fx, ck)
                for j, ct in cb.calls_named("core::slice::get"):
                    p2 = op_place(ct["args"][1])
                    d2 = cb.single_def(p2["l"]) if p2 is not None else None
                    if d2 and d2.kind == "assign" and d2.node["rv"].get("agg") == "adt" and d2.node["rv"]["adt"].endswith("RangeFrom"):
                        start_from_param = all(l.kind == "param" and l.data == 2 for l in cb.trace(d2.node["rv"]["ops"][0]))
                        recv_upvar = all(l.kind == "param" and l.data == 1 for l in cb.trace(ct["args"][0]))
                        # and_then receiver = checked_add(n1, 1)
                        ca = def_call(ub, t["args"][0])
                        add_ok = bool(ca) and callee_name(ca[1]) == "core::num::checked_add" and is_cons(ca[1]["args"][0], c1, F0) and const_int(ub, ca[1]["args"][1]) == 1
                        up_ok = any(is_cons(u, c1, F1) for u in ups)
                        ok2 = start_from_param and recv_upvar and add_ok and up_ok
                        detail = "second length field parsed from rest1.get(checked_add(n1, 1)..): start from and_then argument %s, receiver captured rest1 %s, checked_add(n1,1) %s" % (
                            start_from_param, up_ok, add_ok)
    ctx.inst("C20/D2", "second length field starts one separator after the type", ok2, detail, t2["at"])
    # the length parser
    if cons is None:
        ctx.bad("C20/D2", "length parser", "no local function returning Result<(usize, &[u8])> is reachable from pae_unpack")
    else:
        cb = body_of(fx, cons["key"])
        ctx.touch_body(cb)
        sp = cb.calls_named("core::slice::splitn")
        oksp = len(sp) == 1 and const_int(cb, sp[0][1]["args"][1]) == 2 and root_ids(cb, sp[0][1]["args"][0]) == frozenset([("param", 1, ())])
        sepb = None
        if sp:
            p = op_place(sp[0][1]["args"][2])
            d = cb.single_def(p["l"]) if p else None
            if d and d.kind == "assign" and d.node["rv"].get("agg") == "closure" and d.node["rv"]["closure_key"] in fx.fns:
                clb = body_of(fx, d.node["rv"]["closure_key"])
                for blk in clb.blocks:
                    for st in blk["stmts"]:
                        if st["k"] == "assign" and st["rv"]["k"] == "binop" and st["rv"]["op"] == "Eq":
                            for o in (st["rv"]["a"], st["rv"]["b"]):
                                v = const_int(clb, o)
                                if v is not None:
                                    sepb = v
        n_l = cb.trace({"l": 0, "p": []}, (OK, F0, F0), STOP, TEXTRA)
        r_l = cb.trace({"l": 0, "p": []}, (OK, F0, F1), STOP, TEXTRA)
        pieces = bool(n_l) and bool(r_l) and all(l.kind == "call" and callee_name(l.data[1]) == "core::slice::splitn" and l.path == (ELEM,) for l in n_l + r_l)
        usize = any("usize" in " ".join(t.get("generics", [])) for (i, t) in cb.calls_named("core::str::parse"))
        ctx.inst("C20/D2", "length parser: decimal usize before the first separator, rest after it", oksp and pieces and usize and sepb is not None and sep_const is not None and chr(sepb) == sep_const,
                 "splitn(2) on the input: %s; both results are pieces of that split: %s; parsed as usize: %s; separator byte %s vs pack separator %r" % (
                     oksp, pieces, usize, sepb, sep_const), cons["at"])
    # prefix
    sp = ub.calls_named("core::slice::strip_prefix")
    okp = False
    if len(sp) == 1:
        pl = ub.trace(sp[0][1]["args"][1], (), None, FMT)
        consts = sorted(l.data.get("str") for l in pl if l.kind == "const" and l.data.get("str") is not None)
        okp = prefix_const in consts and sep_const in consts and all(l.kind == "const" for l in pl) and root_ids(ub, sp[0][1]["args"][0]) == frozenset([("param", 1, ())])
        ctx.inst("C20/D2", "decoder strips the prefix the encoder writes", okp, "strip_prefix argument built from constants %s" % consts, sp[0][1]["at"])
    else:
        ctx.bad("C20/D2", "decoder strips the prefix the encoder writes", "expected one strip_prefix call, found %d" % len(sp))
    # ---------------- D3
    n = 0
    # every local function and closure the decoder can reach (helpers called from error-message closures included)
    dec_keys = [unpack["key"]] + [k for k in sorted(ctx.cg.reachable([unpack["key"]])) if k != unpack["key"] and not fx.fns[k].get("exp")]
    for f in [fx.fns[k] for k in dec_keys]:
        b = body_of(fx, f["key"])
        for (bb, t, kind, descr) in C14.sites_of(f):
            if bb not in b.reach:
                continue
            n += 1
            res = C14.discharge(fx, b, bb, t, kind, descr, ctx.cg, f["key"])
            ctx.inst("C20/D3", "%s | %s" % (f["path"].split("::")[-1], descr), res is not None,
                     ("%s: %s" % res) if res else "panic-capable construct in the decoder with no dominating guard", t["at"])
    ctx.ok("C20/D3", "decoder panic inventory", "%d panic-capable construct(s) in the decoder, each discharged above" % n)
