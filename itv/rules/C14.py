"""C14 - untrusted bytes can make verification fail but never crash it.

D1 panic-site inventory with discharge rules, D2 recursion inventory, D3 loop inventory, over the
call-graph closure of the untrusted-input entry points."""
import re
from ..core import Body, callee_name, norm, op_place, op_const, proj_path, short, as_cmp, as_pred
from ..guards import (root_ids, same_root, def_call, dominating_preds, dominating_cmps, dominating_variants,
                      dominating_variant_sets, value_variants, body_of, const_int, int_interval_facts, roots_s)

EXPLANATION = (
    "Inventory rule. Scope = every local function reachable in the resolved call graph (dyn dispatch, closures and "
    "the serde callback rule included) from the entry points that take attacker-controlled data. In scope, every "
    "panic-capable construct of the MIR (unwrap/expect, Index impls, split_at/copy_from_slice, panic machinery, "
    "bounds/overflow/division asserts) must be discharged by a dominating guard, by type, by a callee that cannot "
    "fail, by a key drawn from the same map, by bounded arithmetic, or by a reviewed one-construct suppression with "
    "its reason; recursion cycles and loops must be in the termination tables. Anything else is reported with the "
    "function, the construct and the entry point it is reachable from.")
DECIDED = ["D1 panic-site inventory of local code reachable from the untrusted-input entry points",
           "D2 recursion (SCC) inventory with bounds", "D3 loop (back-edge) inventory with termination arguments"]
UNDECIDED = ["panics, aborts, stack use and termination inside dependencies (serde_json, glob, derp, pem, ring, chrono, walkdir, path-clean)",
             "allocation failure"]
TRUSTED = ["dependencies do not panic on any input and std's Read/Iterator contracts hold",
           "G7 contracts: Read::read returns n <= buf.len(); ring accepts RSA keys of at most 8192 bits; path_clean::clean of UTF-8 input yields UTF-8"]
ASSUMPTIONS = ["usize/u64 counters incremented once per consumed element cannot overflow in practice (2^64 steps)"]
FLOORS = {"C14/D1": 60, "C14/D2": 2, "C14/D3": 20, "C14/scope": 1}
FLOORS_RELEASE = {"C14/D1": 25, "C14/D2": 2, "C14/D3": 20, "C14/scope": 1}    # no overflow asserts without overflow checks

ENTRY_PATTERNS = [
    r"^verifylib::in_toto_verify$",
    r"^models::metadata::Metablock::verify$",
    r"^models::metadata::MetadataWrapper::(from_bytes|try_from_bytes)$",
    r"^models::metadata::MetablockBuilder::from_raw_metadata$",
    r"^<interchange::cjson::(pretty::)?Json(Pretty)? as interchange::DataInterchange>::(from_slice|from_reader|deserialize|canonicalize)$",
    r"^crypto::PublicKey::(from_spki|from_pem_spki|from_ed25519|from_ed25519_with_keyid_hash_algorithms|from_ecdsa|from_ecdsa_with_keyid_hash_algorithms?)$",
    r"^crypto::PrivateKey::(from_pkcs8|from_ed25519)$",
    r"^crypto::SignatureValue::from_hex$",
    r"^crypto::KeyId::prefix$",
    r"^models::envelope::DSSEVersion::(unpack|try_unpack)$",
    r"^models::envelope::envelope_file::EnvelopeFile::from_bytes$",
    r"^models::(predicate::PredicateWrapper|statement::StatementWrapper)::(try_from_value|judge_from_value)$",
    r"^format_hex::deserialize$",
]
ENTRY_TRAITS = {"serde::Deserialize", "serde::de::Visitor", "serde::de::DeserializeSeed", "std::str::FromStr",
                "std::convert::TryFrom"}
MIN_ENTRIES = 25

PANIC_METHODS = {
    "std::option::Option::unwrap": "unwrap", "std::option::Option::expect": "expect",
    "std::result::Result::unwrap": "unwrap", "std::result::Result::expect": "expect",
    "std::result::Result::unwrap_err": "unwrap_err", "std::result::Result::expect_err": "expect_err",
    "std::ops::Index::index": "index", "std::ops::IndexMut::index_mut": "index_mut",
    "core::slice::split_at": "split_at", "core::slice::split_at_mut": "split_at",
    "core::str::split_at": "split_at", "core::slice::copy_from_slice": "copy_from_slice",
    "core::slice::clone_from_slice": "clone_from_slice",
    "std::vec::Vec::remove": "Vec::remove", "std::vec::Vec::swap_remove": "Vec::swap_remove",
    "std::vec::Vec::insert": "Vec::insert", "std::vec::Vec::drain": "Vec::drain",
    "std::vec::Vec::split_off": "Vec::split_off", "std::vec::Vec::truncate": None,
    "std::string::String::remove": "String::remove", "std::string::String::insert": "String::insert",
    "std::string::String::insert_str": "String::insert_str", "std::string::String::drain": "String::drain",
    "std::string::String::split_off": "String::split_off", "std::string::String::replace_range": "String::replace_range",
    "std::cell::RefCell::borrow": "RefCell::borrow", "std::cell::RefCell::borrow_mut": "RefCell::borrow_mut",
    "std::iter::Iterator::step_by": "step_by", "core::slice::chunks": "chunks", "core::slice::windows": "windows",
    "core::slice::chunks_exact": "chunks_exact", "std::collections::VecDeque::remove": None,
    "core::str::repeat": "repeat", "std::time::Instant::duration_since": None,
    "std::option::Option::unwrap_unchecked": "unwrap_unchecked",
}


def clean_ty(t):
    t = re.sub(r"[A-Za-z0-9_:#]*::_serde::", "serde::", t or "?")
    t = re.sub(r"\b(std|core|alloc)::[a-z_:]*::([A-Z])", r"\2", t)
    t = re.sub(r"\b[a-z_]+::(?:[a-z_0-9]+::)*([A-Z])", r"\1", t)
    return t


def clean_path(p):
    return re.sub(r"[A-Za-z0-9_:#]*::_serde::", "serde::", p)


def entries(fx):
    out = []
    pats = [re.compile(p) for p in ENTRY_PATTERNS]
    matched = set()
    for f in fx.doc["fns"]:
        for p in pats:
            if p.search(f["path"]):
                out.append(f["key"])
                matched.add(p.pattern)
        if norm(f.get("impl_trait")) in ENTRY_TRAITS and f["kind"] == "AssocFn":
            out.append(f["key"])
    missing = [p.pattern for p in pats if p.pattern not in matched]
    return out, missing


def sites_of(f):
    """Yield (bb, term, kind, descr) for every panic-capable construct of a function."""
    for bi, b in enumerate(f["blocks"]):
        if b["cleanup"]:
            continue
        t = b["term"]
        if not t:
            continue
        if t["k"] == "assert":
            if t["msg"] in ("misaligned", "nullptr", "invalid_enum"):
                continue
            d = "assert " + t["msg"] + ((" " + t["binop"]) if t.get("binop") else "")
            yield bi, t, "assert", d
        elif t["k"] == "call":
            n = callee_name(t) or ""
            if n in PANIC_METHODS:
                tag = PANIC_METHODS[n]
                if tag is None:
                    continue
                tys = [clean_ty(x) for x in (t.get("arg_tys") or [])]
                d = "%s on %s" % (tag, tys[0] if tys else "?")
                if tag in ("index", "index_mut") and len(tys) > 1:
                    d += " by " + tys[1]
                yield bi, t, "call", d
            elif n in ("std::ops::Add::add", "std::ops::Sub::sub", "std::ops::AddAssign::add_assign", "std::ops::SubAssign::sub_assign") \
                    and "chrono::" in ((t.get("arg_tys") or [""])[0]):
                # chrono's operators panic on overflow (documented): a panic-capable construct like any other
                yield bi, t, "call", "chrono %s on %s" % (n.split("::")[-1], clean_ty((t.get("arg_tys") or ["?"])[0]))
            elif n.startswith("core::panicking::") or n.startswith("std::rt::begin_panic") or n.startswith("std::panicking::"):
                m = (t.get("exp") or "").split(">")
                mac = [x for x in m if x.startswith("m:")]
                yield bi, t, "panic", "panic via %s" % (mac[-1][2:] + "!" if mac else n.split("::")[-1])
            elif t.get("target") is None and n not in ("std::process::exit",):
                yield bi, t, "diverge", "diverging call " + n


# ---------------------------------------------------------------------------------------------
# discharge rules
# ---------------------------------------------------------------------------------------------
def _is_len_of(body, op):
    """If op is the length of something: returns the operand/place whose length it is."""
    p = op_place(op)
    if p is None or p["p"]:
        return None
    for _ in range(6):
        d = body.single_def(p["l"])
        if d is None:
            return None
        if d.kind == "call":
            n = callee_name(d.node) or ""
            if n.split("::")[-1] == "len" and d.node["args"]:
                return d.node["args"][0]
            return None
        rv = d.node["rv"]
        if rv["k"] == "unop" and rv["op"] == "PtrMetadata":
            return rv["a"]
        if rv["k"] in ("use", "cast"):
            q = op_place(rv["op"])
            if q is None or q["p"]:
                return None
            p = q
            continue
        return None
    return None


def _nonempty_guard(body, bb, coll):
    """A dominating fact that collection `coll` is non-empty (is_empty false, len cmp)."""
    for (e, n, t, truth) in dominating_preds(body, bb):
        if n and n.split("::")[-1] == "is_empty" and truth is False and same_root(body, t["args"][0], coll):
            return "is_empty()==false at bb%d" % e[0]
    for (e, op, a, b) in dominating_cmps(body, bb):
        for (x, y, o) in ((a, b, op), (b, a, {"Lt": "Gt", "Le": "Ge", "Gt": "Lt", "Ge": "Le", "Eq": "Eq", "Ne": "Ne"}[op])):
            lx = _is_len_of(body, x)
            c = const_int(body, y)
            if lx is not None and c is not None and same_root(body, lx, coll):
                if (o == "Gt" and c >= 0) or (o == "Ge" and c >= 1) or (o == "Ne" and c == 0) or (o == "Eq" and c >= 1):
                    return "len %s %d at bb%d" % (o, c, e[0])
    return None


def _len_lower_bound(body, bb, coll):
    """Largest n such that a dominating fact implies len(coll) >= n."""
    best = 0
    if _nonempty_guard(body, bb, coll):
        best = 1
    for (e, op, a, b) in dominating_cmps(body, bb):
        for (x, y, o) in ((a, b, op), (b, a, {"Lt": "Gt", "Le": "Ge", "Gt": "Lt", "Ge": "Le", "Eq": "Eq", "Ne": "Ne"}[op])):
            lx = _is_len_of(body, x)
            c = const_int(body, y)
            if lx is not None and c is not None and same_root(body, lx, coll):
                if o == "Gt":
                    best = max(best, c + 1)
                elif o in ("Ge", "Eq"):
                    best = max(best, c)
    return best


def _len_at_least(body, bb, coll, n_op):
    """A dominating comparison states len(coll) >= n for the (variable) operand n."""
    for (e, op, a, b) in dominating_cmps(body, bb):
        for (x, y, o) in ((a, b, op), (b, a, {"Lt": "Gt", "Le": "Ge", "Gt": "Lt", "Ge": "Le", "Eq": "Eq", "Ne": "Ne"}[op])):
            lx = _is_len_of(body, x)
            if lx is not None and same_root(body, lx, coll) and same_root(body, y, n_op) and o in ("Ge", "Gt", "Eq"):
                return True
    return False


def _range_parts(body, op):
    """For an operand that is a Range/RangeFrom/RangeTo aggregate: dict field->operand."""
    p = op_place(op)
    if p is None or p["p"]:
        return None
    d = body.single_def(p["l"])
    if d is None or d.kind != "assign" or d.node["rv"]["k"] != "agg" or d.node["rv"]["agg"] != "adt":
        return None
    rv = d.node["rv"]
    return {"adt": rv["adt"], "fields": dict(zip(rv["fields"], rv["ops"]))}


def _counter_info(body, op):
    """If op reads a local all of whose definitions are `const`, a copy of some other operand
    (init) or `self +/- const` through a checked-arithmetic temp, describe it."""
    p = op_place(op)
    if p is None or p["p"]:
        return None
    x = p["l"]
    for _ in range(6):   # resolve read temporaries `_t = copy x` to the variable itself
        d = body.single_def(x)
        if d and d.kind == "assign" and not proj_path(d.node["dst"]) and d.node["rv"]["k"] == "use":
            q = op_place(d.node["rv"]["op"])
            if q is not None and not q["p"] and len(body.defs.get(q["l"], [])) != 1 and not (1 <= q["l"] <= body.argc):
                x = q["l"]
                break
            if q is not None and not q["p"] and (len(body.defs.get(q["l"], [])) == 1) and q["l"] > body.argc:
                x = q["l"]
                continue
        break
    inits, steps = [], []
    for d in body.defs.get(x, []):
        if d.kind != "assign" or proj_path(d.node["dst"]):
            return None
        rv = d.node["rv"]
        if rv["k"] == "use":
            q = op_place(rv["op"])
            if q is not None and q["p"] and proj_path(q) == (("f", "0"),):
                # x = move (_t.0) where _t = CheckedOp(x, c)
                dt = body.single_def(q["l"])
                if dt and dt.kind == "assign" and dt.node["rv"]["k"] == "binop":
                    b = dt.node["rv"]
                    a_p = op_place(b["a"])
                    if a_p and a_p["l"] == x and not a_p["p"] and op_const(b["b"]) is not None:
                        steps.append((d.bb, b["op"], op_const(b["b"]).get("int")))
                        continue
                    # x = x + <non-const>
                    if a_p and a_p["l"] == x and not a_p["p"]:
                        steps.append((d.bb, b["op"], None))
                        continue
                return None
            inits.append((d.bb, rv["op"]))
        elif rv["k"] == "binop" and rv["op"] in ("Add", "Sub", "AddUnchecked", "SubUnchecked"):
            a_p = op_place(rv["a"])
            if a_p and a_p["l"] == x and not a_p["p"]:
                steps.append((d.bb, rv["op"], (op_const(rv["b"]) or {}).get("int")))
            else:
                return None
        else:
            return None
    return {"local": x, "inits": inits, "steps": steps}


def _resolve_place(body, place, depth=0):
    """(base local, projection path without derefs) of a place, looking through references to locals:
    (*_p).f with _p = &mut x  ->  (x, (f,))."""
    l, proj = place["l"], list(place["p"])
    for _ in range(8):
        if not proj or proj[0] != "*":
            break
        # definitions of the reference itself (writes *through* it are not definitions of it)
        ds = [x for x in body.defs.get(l, []) if x.kind != "assign" or not x.node["dst"]["p"]]
        d = ds[0] if len(ds) == 1 else None
        if d is None or d.kind != "assign":
            return None
        rv = d.node["rv"]
        if rv["k"] == "ref":
            l, proj = rv["place"]["l"], list(rv["place"]["p"]) + proj[1:]
        elif rv["k"] == "use" and op_place(rv["op"]) is not None:
            q = op_place(rv["op"])
            l, proj = q["l"], list(q["p"]) + proj
        else:
            return None
    # a reference kept in a closure's captures / a tuple / a struct: (*(env.0)) with env = {closure: [&mut x]}  ->  x
    for _ in range(6):
        if not ("*" in proj and proj and isinstance(proj[0], dict) and "f" in proj[0]):
            break
        ds = [x for x in body.defs.get(l, []) if x.kind != "assign" or not x.node["dst"]["p"]]
        d = ds[0] if len(ds) == 1 else None
        if d is None or d.kind != "assign":
            return None
        rv = d.node["rv"]
        if rv["k"] == "use" and op_place(rv["op"]) is not None:
            q = op_place(rv["op"])
            l, proj = q["l"], list(q["p"]) + proj
            continue
        if rv["k"] == "ref":
            l, proj = rv["place"]["l"], list(rv["place"]["p"]) + proj
            continue
        if rv["k"] == "agg" and rv.get("agg") in ("closure", "tuple") and str(proj[0]["f"]).isdigit() and int(proj[0]["f"]) < len(rv["ops"]):
            q = op_place(rv["ops"][int(proj[0]["f"])])
            if q is None:
                return None
            sub = _resolve_place(body, {"l": q["l"], "p": list(q["p"]) + proj[1:]}, depth + 1) if depth < 4 else None
            return sub
        return None
    if "*" in proj:
        return None
    return l, tuple(e["f"] if isinstance(e, dict) and "f" in e else str(e) for e in proj)


def _place_counter(body, place, depth=0):
    """A counter kept in a field or behind a reference (`self.consumed += 1`, `*len += 1`): every write to that storage in
    the body is a constant initialisation (possibly as a field of an aggregate), a copy of another such counter (the count
    handed on by value to a helper), or `itself + small constant`."""
    tgt = _resolve_place(body, place)
    if tgt is None or (1 <= tgt[0] <= body.argc) or depth > 3:
        return None
    base, path = tgt
    inits, steps = 0, 0
    for i in sorted(body.reach):
        for st in body.blocks[i]["stmts"]:
            if st["k"] != "assign":
                continue
            r = _resolve_place(body, st["dst"])
            if r is None:
                if st["dst"]["l"] == base:
                    return None
                continue
            if r[0] != base:
                continue
            rv = st["rv"]
            if r[1] == path:
                if rv["k"] == "use" and op_const(rv["op"]) is not None:
                    inits += 1
                elif rv["k"] == "use" and op_place(rv["op"]) is not None and proj_path(op_place(rv["op"])) == (("f", "0"),):
                    dt = body.single_def(op_place(rv["op"])["l"])
                    ok = False
                    if dt and dt.kind == "assign" and dt.node["rv"]["k"] == "binop" and dt.node["rv"]["op"].startswith("Add"):
                        a = op_place(dt.node["rv"]["a"])
                        c = const_int(body, dt.node["rv"]["b"])
                        src = None
                        if a is not None:
                            da = body.single_def(a["l"]) if not a["p"] else None
                            src = _resolve_place(body, op_place(da.node["rv"]["op"])) if (da and da.kind == "assign" and da.node["rv"]["k"] == "use" and op_place(da.node["rv"]["op"])) else _resolve_place(body, a)
                        ok = src == (base, path) and c is not None and 0 <= c <= 8
                    if not ok:
                        return None
                    steps += 1
                elif rv["k"] == "binop" and rv["op"].startswith("Add") and const_int(body, rv["b"]) is not None and 0 <= const_int(body, rv["b"]) <= 8:
                    steps += 1
                elif rv["k"] == "use" and op_place(rv["op"]) is not None and _resolve_place(body, op_place(rv["op"])) not in (None, (base, path)) \
                        and _place_counter(body, op_place(rv["op"]), depth + 1) is not None:
                    inits += 1
                else:
                    return None
            elif len(r[1]) < len(path) and path[:len(r[1])] == r[1]:
                # the enclosing aggregate is (re)built: the field must get a constant
                for _ in range(6):      # the aggregate may arrive through moves (e.g. the return value of an inlined constructor)
                    q = op_place(rv["op"]) if rv["k"] == "use" else None
                    dq = body.single_def(q["l"]) if (q is not None and not q["p"]) else None
                    if dq is not None and dq.kind == "assign":
                        rv = dq.node["rv"]
                    else:
                        break
                if rv["k"] == "agg" and rv.get("agg") == "adt" and path[len(r[1])] in rv["fields"]:
                    o = rv["ops"][rv["fields"].index(path[len(r[1])])]
                    if op_const(o) is None or len(path) != len(r[1]) + 1:
                        return None
                    inits += 1
                else:
                    return None
    return (inits, steps) if inits >= 1 and (steps >= 1 or depth > 0) else None


def _nonzero_test_edges(body, x):
    """Edges on which local x is known to be != 0 (x unsigned)."""
    out = set()
    for (e, tb, f) in body.all_edge_facts():
        c = as_cmp(f)
        if not c:
            continue
        op, a, b = c
        pa, pb = op_place(a), op_place(b)
        def is_x(p):
            if p is None or p["p"]:
                return False
            if p["l"] == x:
                return True
            d = body.single_def(p["l"])
            return bool(d and d.kind == "assign" and d.node["rv"]["k"] == "use" and op_place(d.node["rv"]["op"])
                        and op_place(d.node["rv"]["op"])["l"] == x and not op_place(d.node["rv"]["op"])["p"])
        if is_x(pa) and const_int(body, b) is not None:
            cval, o = const_int(body, b), op
        elif is_x(pb) and const_int(body, a) is not None:
            cval, o = const_int(body, a), {"Lt": "Gt", "Le": "Ge", "Gt": "Lt", "Ge": "Le", "Eq": "Eq", "Ne": "Ne"}[op]
        else:
            continue
        if (o == "Ne" and cval == 0) or (o == "Gt" and cval >= 0) or (o == "Ge" and cval >= 1):
            out.add(e)
    return out


def _below_bound_edges(body, x):
    """Edges on which the unsigned local x is known to differ from / lie below a loop-invariant bound K (a parameter or a
    constant): {edge: K operand}."""
    out = {}
    for (e, tb, f) in body.all_edge_facts():
        c = as_cmp(f)
        if not c:
            continue
        op, a, b = c
        pa, pb = op_place(a), op_place(b)
        def is_x(p):
            if p is None or p["p"]:
                return False
            if p["l"] == x:
                return True
            d = body.single_def(p["l"])
            return bool(d and d.kind == "assign" and d.node["rv"]["k"] == "use" and op_place(d.node["rv"]["op"])
                        and op_place(d.node["rv"]["op"])["l"] == x and not op_place(d.node["rv"]["op"])["p"])
        if is_x(pa):
            k, o = b, op
        elif is_x(pb):
            k, o = a, {"Lt": "Gt", "Le": "Ge", "Gt": "Lt", "Ge": "Le", "Eq": "Eq", "Ne": "Ne"}[op]
        else:
            continue
        if o not in ("Ne", "Lt"):
            continue
        lv = body.trace(k)
        if lv and all(l.kind in ("param", "const") and not l.via for l in lv) and len({(l.kind, str(l.data), l.path) for l in lv}) == 1:
            out[e] = k
    return out


def _reach_without(body, start, cut_edges):
    seen = {start}
    stack = [start]
    while stack:
        b = stack.pop()
        for j, (tb, _) in enumerate(body.succ[b]):
            if (b, j) in cut_edges or tb in seen:
                continue
            seen.add(tb)
            stack.append(tb)
    return seen


def _read_call_of(body, op):
    """If op is the Ok payload (possibly cast) of std::io::Read::read: the call terminator."""
    lv = body.trace(op)
    if lv and all(l.kind == "call" and callee_name(l.data[1]) == "std::io::Read::read" and l.path == (("v", "Ok"), ("f", "0")) for l in lv) \
            and len({l.data[0] for l in lv}) == 1:
        return lv[0].data[1]
    return None


_REGIONS = {}


def contract(fx, body, bb, t, kind, descr):
    """G7: constructs that cannot panic because of a documented contract of a dependency; the shape is recognised, not the place."""
    n = callee_name(t) if t["k"] == "call" else None
    if kind == "call" and n == "std::ops::Index::index":
        rp = _range_parts(body, t["args"][1])
        if rp and (rp["adt"].endswith("::RangeTo") or (rp["adt"].endswith("::Range") and const_int(body, rp["fields"]["start"]) == 0)):
            rc = _read_call_of(body, rp["fields"]["end"])
            if rc is not None and same_root(body, rc["args"][1], t["args"][0]):
                return ("G7-read", "`buf[..n]` with n returned by Read::read(&mut buf) on the same buffer: std's Read contract guarantees n <= buf.len()")
    if kind == "assert" and t["msg"] == "overflow" and t.get("binop") == "Add":
        a, b = t["ops"]
        aty = body.local_ty(op_place(a)["l"]) if op_place(a) else ""
        if aty == "u64" and _read_call_of(body, b) is not None:
            ci = _counter_info(body, a)
            if ci and all(_const_bounded(body, i[1]) for i in ci["inits"]) and all(s_[1].startswith("Add") for s_ in ci["steps"]):
                return ("G7-read", "u64 byte counter `size += n`, n returned by Read::read (n <= buffer length): overflow needs 2^64 bytes of input")
    if kind == "assert" and t["msg"] == "overflow" and t.get("binop") == "Mul":
        a, b = t["ops"]
        c = const_int(body, b)
        lv = body.trace(a)
        if c is not None and 0 <= c <= 8 and lv and all(l.kind == "call" and callee_name(l.data[1]) == "ring::rsa::PublicKey::modulus_len" for l in lv):
            return ("G7-ring", "`modulus_len() * %d`: ring only accepts RSA keys of at most 8192 bits, so the product is < 2^16" % c)
    if kind == "call" and n == "std::ops::Index::index" and fx.fns.get(body.key, {}).get("kind") == "Closure":
        # judge the construct where the closure runs: in the region of the function it is written in
        from ..cg import region_of_key, private_only_policy
        rk = fx.root_of(fx.fns[body.key])["key"]
        rb = _REGIONS.get((id(fx), rk))
        if rb is None:
            rb = _REGIONS[(id(fx), rk)] = region_of_key(fx, rk, 4, private_only_policy(fx))
        same = [(i, tt) for (i, tt) in rb.calls() if callee_name(tt) == n and tt["at"] == t["at"] and rb.blocks[i].get("origin_key") == body.key]
        if len(same) == 1:
            r = contract(fx, rb, same[0][0], same[0][1], kind, descr)
            if r is not None:
                return r
    if kind == "call" and n == "std::ops::Index::index":
        tys = t.get("arg_tys") or ["", ""]
        # reviewed premises, recognised by what is indexed with what (not by the function they are written in)
        if "HashMap<std::string::String, models::link::metadata::LinkMetadata>" in tys[0] and tys[1].lstrip("&") == "str":
            kl = body.trace(t["args"][1])
            if kl and all(l.kind == "call" and (callee_name(l.data[1]) or "").endswith("SupplyChainItem::name") and
                          all(x.kind == "param" and ("f", "steps") in x.path[:3] for x in body.trace(l.data[1]["args"][0])) for l in kl) \
                    and all(l.kind == "param" for l in body.trace(t["args"][0])):
                return ("G8-premise", "reduced-link map indexed by the name of one of the layout's own steps: every step name has an entry - the "
                        "threshold stage inserts one entry per layout step, the sub-layout and reduce stages keep every key or return Err "
                        "(C02/D5 checks the producer side)")
        if re.search(r"BTreeMap<models::helpers::VirtualTargetPath, &?std::collections::HashMap<crypto::HashAlgorithm, crypto::HashValue>>", tys[0]) \
                and tys[1].lstrip("&") == "models::helpers::VirtualTargetPath":
            kl = body.trace(t["args"][1])
            if kl and all(l.kind == "param" and l.path == (("elem",),) and "BTreeSet<models::helpers::VirtualTargetPath>" in body.local_ty(l.data) for l in kl):
                return ("G8-premise", "artifact map indexed by an element of the artifact queue: queue elements are canonicalised keys of the same "
                        "link's artifact map, and the map is re-keyed by the same canonicalisation (single call site in the rule engine)")
    if kind == "call" and descr.startswith("chrono ") and len(t["args"]) == 2:
        la, lb = body.trace(t["args"][0]), body.trace(t["args"][1])
        now = la and all(l.kind == "call" and callee_name(l.data[1]) in ("chrono::Utc::now", "chrono::Local::now") for l in la)
        dur = lb and all(l.kind == "call" and (callee_name(l.data[1]) or "").startswith(("chrono::Duration::", "chrono::TimeDelta::")) and
                         all(const_int(body, a) is not None for a in l.data[1]["args"]) for l in lb)
        if now and dur:
            return ("G7-chrono", "current time plus / minus a constant duration: chrono overflows only near year +-262143")
    if kind == "call" and n == "std::result::Result::unwrap":
        lv = body.trace(t["args"][0], (), lambda tt: callee_name(tt) == "path_clean::clean",
                        {"std::ffi::OsString::into_string": [((), 0, ())], "std::path::PathBuf::into_os_string": [((), 0, ())]})
        if lv and all(l.kind == "call" and callee_name(l.data[1]) == "path_clean::clean" and
                      (l.data[1].get("generics") or ["?"])[0].lstrip("&") in ("str", "std::string::String") for l in lv) \
                and "Result<std::string::String, std::ffi::OsString>" in (t.get("arg_tys") or [""])[0]:
            return ("G7-utf8", "PathBuf produced by path_clean::clean from a str/String: its components are substrings of UTF-8 input, "
                    "so OsString::into_string cannot fail")
    return None


def discharge_in_region(fx, cg, k, bb, t, kind, descr):
    """The guard may live in a caller (a private helper is only ever run under its callers' checks) or the guarded value may
    come out of a private helper: judge the construct in the REGION (private helpers inlined) of the function it is written in
    and of every non-private function through which it is reached - all instances must be discharged."""
    from ..cg import region_of_key, private_only_policy, vis_kind
    rootk = fx.root_of(fx.fns[k])["key"]
    tops, seen, stack = set(), set(), [rootk]
    while stack:
        x = stack.pop()
        if x in seen:
            continue
        seen.add(x)
        fxn = fx.fns[x]
        if fxn["kind"] in ("Fn", "AssocFn") and vis_kind(fxn) == "private" and not fxn.get("impl_trait"):
            callers = {fx.root_of(fx.fns[ck])["key"] for ck in fx.fns for (cbb, ct, tgt) in cg.sites.get(ck, ()) if tgt == x}
            callers.discard(x)
            if not callers:
                return None
            stack.extend(callers)
        else:
            tops.add(x)
    if not tops or len(tops) > 6:
        return None
    reasons = []
    for top in sorted(tops):
        rb = _REGIONS.get((id(fx), top))
        if rb is None:
            rb = _REGIONS[(id(fx), top)] = region_of_key(fx, top, 4, private_only_policy(fx))
            rb.enable_path_sensitivity()
        inst = [i for i in sorted(rb.reach) if rb.blocks[i].get("origin_key") == k and rb.blocks[i].get("origin_bb") == bb and not rb.blocks[i].get("synthetic")
                and rb.blocks[i]["term"] and rb.blocks[i]["term"].get("at") == t.get("at")]
        if not inst:
            if top == rootk:
                return None
            continue          # not reached from this top within the inlining depth: nothing to show there
        for i in inst:
            r = _discharge(fx, rb, i, rb.blocks[i]["term"], kind, descr, cg, top) or contract(fx, rb, i, rb.blocks[i]["term"], kind, descr)
            if r is None:
                return None
            reasons.append(r)
    if not reasons:
        return None
    return (reasons[0][0] + "-region", reasons[0][1] + " (judged in the region of %s, private helpers inlined)" % ", ".join(
        clean_path(fx.fns[x]["path"]) for x in sorted(tops)))


def discharge(fx, body, bb, t, kind, descr, cg=None, fkey=None):
    """Return (code, reason) if the construct cannot panic, else None."""
    r = _discharge(fx, body, bb, t, kind, descr, cg, fkey)
    if r is None:
        r = contract(fx, body, bb, t, kind, descr)
    return r


def _discharge(fx, body, bb, t, kind, descr, cg=None, fkey=None):
    n = callee_name(t) if t["k"] == "call" else None
    # ---------------- explicit panics in match arms that cannot be taken
    if kind in ("panic", "diverge"):
        for (e, place, vs, pty) in dominating_variant_sets(body, bb):
            possible = value_variants(fx, body, place)
            if possible is not None and not (possible & vs):
                return ("G5-dead-arm", "arm requires %s to be %s but its value can only be %s (interprocedural "
                        "provenance of the matched value)" % (pty, sorted(vs), sorted(possible)))
            # matched value is a parameter: every call site must exclude the arm
            rs = root_ids(body, place)
            if cg is not None and len(rs) == 1:
                (rk, rid, rpath), = rs
                f = fx.fns[fkey]
                if rk == "param" and not f.get("pub") and not f.get("impl_trait"):
                    sites = [(ck, cbb, ct) for ck in fx.fns for (cbb, ct, tgt) in cg.sites.get(ck, ()) if tgt == fkey]
                    ok = bool(sites)
                    for (ck, cbb, ct) in sites:
                        cb = body_of(fx, ck)
                        arg = ct["args"][rid - 1]
                        excl = False
                        for (e2, p2, vs2, pty2) in dominating_variant_sets(cb, cbb):
                            if pty2 == pty and same_root(cb, p2, arg, (), rpath) and not (vs2 & vs):
                                excl = True
                        if not excl:
                            ok = False
                    if ok:
                        return ("G5-callsites", "private function; at each of its %d call site(s) the argument is already "
                                "matched to a variant outside %s" % (len(sites), sorted(vs)))
        return None
    if kind == "call" and n in ("core::slice::split_at", "core::str::split_at", "core::slice::split_at_mut"):
        c = const_int(body, t["args"][1])
        lb = _len_lower_bound(body, bb, t["args"][0])
        if c is not None and lb >= c and "str" not in n:
            return ("G2", "split_at(%d) under a dominating length guard (len >= %d)" % (c, lb))
        if "str" not in n and _len_at_least(body, bb, t["args"][0], t["args"][1]):
            return ("G2", "split_at(n) under a dominating guard len >= n")
        if "str" not in n:
            # n = the index Iterator::position found in an iteration over the same slice: below its length
            pl = body.trace(t["args"][1], (), lambda tt: callee_name(tt) == "std::iter::Iterator::position")
            if pl and all(l.kind == "call" and callee_name(l.data[1]) == "std::iter::Iterator::position" and l.path == (("v", "Some"), ("f", "0")) for l in pl):
                ok_src = True
                for l in pl:
                    il = body.trace(l.data[1]["args"][0], (), lambda tt: callee_name(tt) in ("core::slice::iter",))
                    ok_src = ok_src and bool(il) and all(x.kind == "call" and callee_name(x.data[1]) == "core::slice::iter" and not x.path and
                                                         same_root(body, x.data[1]["args"][0], t["args"][0]) and
                                                         not any(v in ("Iterator::skip", "Iterator::rev", "Iterator::chain", "Iterator::step_by") for v in x.via) for x in il)
                if ok_src:
                    return ("G7-position", "split_at(i) with i = Iterator::position over the same slice's iter(): i < len (std contract)")
        return None
    # ---------------- Index impls
    if kind == "call" and n in ("std::ops::Index::index", "std::ops::IndexMut::index_mut"):
        tys = t.get("arg_tys") or ["?", "?"]
        cont, idx = tys[0], tys[1] if len(tys) > 1 else "?"
        if idx == "std::ops::RangeFull":
            return ("G1", "indexing by RangeFull is infallible")
        coll = t["args"][0]
        is_map = "HashMap<" in cont or "BTreeMap<" in cont
        if is_map:
            # G4: key drawn from the same map
            kr = root_ids(body, t["args"][1])
            mr = root_ids(body, coll)
            want = frozenset((k, i, p + (("elem",), ("f", "0"))) for (k, i, p) in mr)
            if kr and kr == want:
                return ("G4", "key is an element of keys() of the same map")
            return None
        if idx == "usize":
            c = const_int(body, t["args"][1])
            lb = _len_lower_bound(body, bb, coll)
            if c is not None and lb > c:
                return ("G2", "index %d < guarded length lower bound %d" % (c, lb))
            # len-1 under non-empty guard
            dc = None
            p = op_place(t["args"][1])
            if p is not None and not p["p"]:
                for lf in body.trace(t["args"][1]):
                    if lf.kind == "binop" or (lf.kind == "other"):
                        pass
                d = body.single_def(p["l"])
                # release profile: idx = Sub(len, 1) without an overflow check
                if d and d.kind == "assign" and d.node["rv"]["k"] == "binop" and d.node["rv"]["op"] in ("Sub", "SubUnchecked"):
                    bo = d.node["rv"]
                    lx = _is_len_of(body, bo["a"])
                    if lx is not None and same_root(body, lx, coll) and const_int(body, bo["b"]) == 1 and lb >= 1:
                        return ("G2", "index len-1 under a non-empty guard")
                # idx = move (_t.0), _t = SubWithOverflow(len, 1)
                if d and d.kind == "assign" and d.node["rv"]["k"] == "use":
                    q = op_place(d.node["rv"]["op"])
                    if q is not None and proj_path(q) == (("f", "0"),):
                        dt = body.single_def(q["l"])
                        if dt and dt.kind == "assign" and dt.node["rv"]["k"] == "binop" and dt.node["rv"]["op"].startswith("Sub"):
                            bo = dt.node["rv"]
                            lx = _is_len_of(body, bo["a"])
                            if lx is not None and same_root(body, lx, coll) and const_int(body, bo["b"]) == 1 and lb >= 1:
                                return ("G2", "index len-1 under a non-empty guard")
            return None
        rp = _range_parts(body, t["args"][1])
        if rp and rp["adt"].endswith("RangeTo") and not rp["adt"].endswith("RangeToInclusive") and \
                cont.lstrip("&").replace("mut ", "") not in ("str", "std::string::String") and _len_at_least(body, bb, coll, rp["fields"]["end"]):
            return ("G2", "slice [..n] under a dominating guard len >= n")
        if rp and rp["adt"].endswith("RangeFrom"):
            c = const_int(body, rp["fields"]["start"])
            lb = _len_lower_bound(body, bb, coll)
            if c is not None and lb >= c and cont.lstrip("&").replace("mut ", "") not in ("str", "std::string::String"):
                return ("G2", "slice [%d..] with guarded length >= %d" % (c, lb))
        return None
    # ---------------- unwrap / expect
    if kind == "call" and n in ("std::option::Option::unwrap", "std::option::Option::expect",
                                "std::result::Result::unwrap", "std::result::Result::expect"):
        x = t["args"][0]
        is_opt = "Option" in n
        for (e, pn, pt, truth) in dominating_preds(body, bb):
            last = (pn or "").split("::")[-1]
            good = (is_opt and ((last == "is_none" and truth is False) or (last == "is_some" and truth is True))) or \
                   (not is_opt and ((last == "is_err" and truth is False) or (last == "is_ok" and truth is True)))
            if good and same_root(body, pt["args"][0], x):
                return ("G2", "%s()==%s dominates" % (last, truth))
        for (e, place, vname, pty) in dominating_variants(body, bb):
            if vname == ("Some" if is_opt else "Ok") and same_root(body, place, x):
                return ("G2", "variant %s established by a dominating match" % vname)
        dc = def_call(body, x)
        if dc:
            cb, ct = dc
            cn = callee_name(ct) or ""
            if cn.split("::")[-1] in ("get", "get_mut") and ("HashMap" in cn or "BTreeMap" in cn):
                for (e, pn, pt, truth) in dominating_preds(body, bb):
                    if (pn or "").split("::")[-1] == "contains_key" and truth is True \
                            and same_root(body, pt["args"][0], ct["args"][0]) and same_root(body, pt["args"][1], ct["args"][1]):
                        return ("G2", "contains_key(same map, same key)==true dominates get().unwrap()")
            ck = ct.get("resolved_key") or ct.get("callee_key")
            if ck in fx.fns and not is_opt:
                cf = Body(fx.fns[ck])
                leaves = cf.trace({"l": 0, "p": []})
                if leaves and all(lf.kind == "agg" and lf.data[2].get("variant") == "Ok" for lf in leaves):
                    return ("G3", "callee %s only ever returns Ok(..)" % fx.fns[ck]["path"])
        return None
    # ---------------- asserts
    if kind == "assert":
        msg = t["msg"]
        if msg == "bounds":
            ln, idx = t["ops"]
            c = const_int(body, idx)
            coll = _is_len_of(body, ln)
            if c is not None and coll is not None and _len_lower_bound(body, bb, coll) > c:
                return ("G2", "constant index %d under a dominating length guard" % c)
            cl = const_int(body, ln)
            if c is not None and cl is not None and c < cl:
                return ("G1", "constant index %d into array of length %d" % (c, cl))
            return None
        if msg == "overflow":
            a, b = t["ops"]
            op = t.get("binop")
            # both operands constant-derived (derive-generated field counting)
            def constish(o):
                ls = body.trace(o)
                return bool(ls) and all(l.kind == "const" or (l.kind in ("binop",) and False) for l in ls)
            if _const_bounded(body, a) and _const_bounded(body, b):
                return ("G6", "both operands are compile-time bounded (constants / bool casts)")
            ci = _counter_info(body, a)
            cb = const_int(body, b)
            aty = body.local_ty(op_place(a)["l"]) if op_place(a) else ""
            if op == "Add" and ci and cb is not None and 0 <= cb <= 8 and aty in ("usize", "u64", "i64", "isize") \
                    and all(s[1].startswith("Add") and s[2] is not None and 0 <= s[2] <= 8 for s in ci["steps"]) \
                    and all(_const_bounded(body, i[1]) for i in ci["inits"]):
                return ("G6", "64-bit counter initialised from a constant and only ever incremented by a small constant")
            pa = op_place(a)
            if pa is not None and pa["p"]:
                last = [e for e in pa["p"] if isinstance(e, dict) and "ty" in e]
                aty_place = last[-1]["ty"] if last and isinstance(pa["p"][-1], dict) else ""
                if pa["p"] == ["*"]:
                    aty_place = re.sub(r"^&(mut )?", "", body.local_ty(pa["l"]))
            else:
                aty_place = aty
            if op == "Add" and cb is not None and 0 <= cb <= 8 and aty_place in ("usize", "u64") and pa is not None:
                # the counter lives in a field / behind a reference: resolve the storage it is read from
                da = body.single_def(op_place(a)["l"]) if not op_place(a)["p"] else None
                src = op_place(da.node["rv"]["op"]) if (da and da.kind == "assign" and da.node["rv"]["k"] == "use" and op_place(da.node["rv"]["op"])) else op_place(a)
                pc = _place_counter(body, src) if src is not None and src["p"] else None
                if pc:
                    return ("G6", "64-bit counter kept in a field / behind a reference: %d constant initialisation(s), %d step(s) by a small constant, no other write" % pc)
            if op == "Add" and cb == 1 and ci and ci["steps"] and all(s_[1].startswith("Add") and s_[2] == 1 for s_ in ci["steps"]) \
                    and ci["inits"] and all(const_int(body, i_[1]) == 0 for i_ in ci["inits"]):
                # count-up towards a bound: starts at 0, the bound is >= 1 by a dominating guard, and every path from an increment
                # back to an increment passes a test on which the counter differs from (or is below) the bound - so the counter
                # is below the bound whenever it is incremented
                cut = _below_bound_edges(body, ci["local"])
                bounds = {(l.kind, str(l.data), l.path) for k_ in cut.values() for l in body.trace(k_)}
                if cut and len(bounds) == 1:
                    kop = next(iter(cut.values()))
                    lo, _hi = int_interval_facts(body, bb, kop)
                    ok_cycle = all(not _reaches_again(body, sb, bb, set(cut)) for (sb, _o, _c) in ci["steps"])
                    if lo is not None and lo >= 1 and ok_cycle:
                        return ("G2", "count-up: starts at 0, the bound is >= 1 by a dominating guard, and every path from an increment to the next "
                                "passes a test on which the counter is not yet at the bound")
            if op == "Sub" and cb == 1:
                # len - 1 under a non-empty guard
                lx = _is_len_of(body, a)
                if lx is not None and _len_lower_bound(body, bb, lx) >= 1:
                    return ("G2", "len-1 under a non-empty guard")
                # countdown counter kept positive by a loop test
                if ci and ci["steps"] and all(s[1].startswith("Sub") and s[2] == 1 for s in ci["steps"]) and len(ci["inits"]) == 1:
                    init_op = ci["inits"][0][1]
                    lo, _hi = int_interval_facts(body, bb, init_op)
                    cut = _nonzero_test_edges(body, ci["local"])
                    ok_cycle = all(bb not in (_reach_without(body, sb, cut) - {sb}) or
                                   not _reaches_again(body, sb, bb, cut) for (sb, _o, _c) in ci["steps"])
                    if lo is not None and lo >= 1 and ok_cycle:
                        return ("G2", "countdown: initial value >= 1 by a dominating guard and every path from a decrement back to it passes a `!= 0` test")
            if op == "Sub":
                # a - count(.. take(a) ..): the count of at most `a` elements
                lb = body.trace(b, (), lambda tt: callee_name(tt) == "std::iter::Iterator::count")
                if lb and all(l.kind == "call" and callee_name(l.data[1]) == "std::iter::Iterator::count" for l in lb):
                    okt = True
                    for l in lb:
                        cur = l.data[1]["args"][0]
                        found = False
                        for _ in range(8):
                            dc = def_call(body, cur)
                            if not dc:
                                break
                            if callee_name(dc[1]) == "std::iter::Iterator::take":
                                found = same_root(body, dc[1]["args"][1], a)
                                break
                            cur = dc[1]["args"][0] if dc[1]["args"] else None
                            if cur is None:
                                break
                        okt = okt and found
                    if okt:
                        return ("G6", "subtrahend is the number of elements of an iterator limited by take(minuend): it never exceeds the minuend")
                # a - (a - c): the inner difference never exceeds a (its own subtraction is a separate construct)
                pb = op_place(b)
                db = body.single_def(pb["l"]) if (pb is not None and not pb["p"]) else None
                inner = None
                if db and db.kind == "assign" and db.node["rv"]["k"] == "use" and op_place(db.node["rv"]["op"]) is not None:
                    q = op_place(db.node["rv"]["op"])
                    dq = body.single_def(q["l"])
                    if proj_path(q) == (("f", "0"),) and dq and dq.kind == "assign" and dq.node["rv"]["k"] == "binop" and dq.node["rv"]["op"].startswith("Sub"):
                        inner = dq.node["rv"]
                    elif not q["p"] and dq and dq.kind == "assign" and dq.node["rv"]["k"] == "use" and op_place(dq.node["rv"]["op"]) is not None \
                            and proj_path(op_place(dq.node["rv"]["op"])) == (("f", "0"),):
                        d3 = body.single_def(op_place(dq.node["rv"]["op"])["l"])
                        if d3 and d3.kind == "assign" and d3.node["rv"]["k"] == "binop" and d3.node["rv"]["op"].startswith("Sub"):
                            inner = d3.node["rv"]
                if inner is not None and same_root(body, inner["a"], a) and _immutable_param(body, a):
                    return ("G6", "subtrahend is `minuend - x` (unsigned): it never exceeds the minuend")
                # a - b where b is a countdown initialised from a
                cbi = _counter_info(body, b)
                if cbi and len(cbi["inits"]) == 1 and all(s[1].startswith("Sub") and (s[2] or 0) >= 0 for s in cbi["steps"]) \
                        and same_root(body, cbi["inits"][0][1], a) and _immutable_param(body, a):
                    return ("G6", "subtrahend is a countdown initialised from the minuend (never exceeds it)")
            return None
        return None
    return None


def _immutable_param(body, o):
    rs = root_ids(body, o)
    if len(rs) != 1:
        return False
    (k, i, p), = rs
    return k == "param" and not p and not body.defs.get(i) and i not in body.mutators


def _reaches_again(body, start, target, cut):
    return target in (_reach_without(body, start, cut) - {start}) or (start == target and any(
        start in _reach_without(body, tb, cut) for j, (tb, _) in enumerate(body.succ[start]) if (start, j) not in cut))


def _const_bounded(body, o, depth=0):
    """Operand derives only from constants, bool->int casts and arithmetic over such."""
    if op_const(o) is not None:
        return True
    p = op_place(o)
    if p is None or depth > 12:
        return False
    pp = proj_path(p)
    ds = body.defs.get(p["l"], [])
    if not ds or (1 <= p["l"] <= body.argc):
        return False
    for d in ds:
        if d.kind != "assign":
            return False
        rv = d.node["rv"]
        if rv["k"] == "use":
            if not _const_bounded(body, rv["op"], depth + 1):
                return False
        elif rv["k"] == "cast":
            src = op_place(rv["op"])
            if op_const(rv["op"]) is not None:
                continue
            if src is not None and body.local_ty(src["l"]) == "bool" and not src["p"]:
                continue
            if not _const_bounded(body, rv["op"], depth + 1):
                return False
        elif rv["k"] == "binop" and rv["op"].startswith(("Add", "Sub", "Mul")):
            if not (_const_bounded(body, rv["a"], depth + 1) and _const_bounded(body, rv["b"], depth + 1)):
                return False
        else:
            return False
    return True


# Reviewed one-construct suppressions (G5): (function path, construct descriptor) -> reason.
REVIEWED = {
}

# Recursion table (D2): frozenset of function paths -> bound
RECURSION = {
    frozenset(["verifylib::in_toto_verify"]):
        "one directory level (<step>.<keyid8>/) per recursion; bounded by the path-length limit of the file system",
}


def structural_recursion(fx, comp):
    """A self-recursive function whose every recursive call passes, in some parameter position k, a proper sub-component of its
    own k-th parameter (an element / field of it): the depth is the nesting depth of that argument - for the canonicaliser the
    JSON tree, which serde_json limits to 128 levels for parsed input."""
    roots = {fx.root_of(fx.fns[x])["key"] for x in comp}
    if len(roots) != 1:
        # mutual recursion among module-private functions: judged from the one member that is entered from outside the cycle,
        # with the others inlined into it
        from ..cg import vis_kind, CallGraph
        outside = set()
        for r in roots:
            for ck in fx.fns:
                if fx.root_of(fx.fns[ck])["key"] in roots:
                    continue
                for blk in fx.fns[ck]["blocks"]:
                    t = blk["term"]
                    if t and t["k"] == "call" and (t.get("resolved_key") or t.get("callee_key")) == r:
                        outside.add(r)
        if len(outside) != 1 or not all(vis_kind(fx.fns[r]) == "private" for r in roots - outside):
            return None
        k = next(iter(outside))
    else:
        k = next(iter(roots))          # one function, possibly together with closures of its own
    f = fx.fns[k]
    if len(comp) == 1:
        b = body_of(fx, k)
    else:
        from ..cg import region_of_key, private_only_policy
        b = region_of_key(fx, k, 4, private_only_policy(fx))      # closures inlined where they run; the recursive call stays a call
    sites = [(i, t) for (i, t) in b.calls() if (t.get("resolved_key") or t.get("callee_key")) == k]
    # the function passed as an item to an element-wise adaptor over a component of its own argument (`arr.iter().map(convert)`)
    items = [(i, t) for (i, t) in b.calls() if any((op_const(a) or {}).get("fn_key") == k for a in t["args"])]
    for (i, t) in items:
        if callee_name(t) not in ("std::iter::Iterator::map", "std::iter::Iterator::for_each", "std::iter::Iterator::try_for_each"):
            return None
        lv = b.trace(t["args"][0])
        if not (lv and all(l.kind == "param" and l.path for l in lv)):
            return None
    if not sites and not items:
        return None        # recursion through a callback: not visible here
    for (i, t) in sites:
        ok = False
        for ai, a in enumerate(t["args"]):
            lv = b.trace(a)
            if lv and all(l.kind == "param" and l.data == ai + 1 and l.path for l in lv):
                ok = True
        if not ok:
            return None
    return "structural recursion: each of the %d recursive use(s) descends into a component of the function's own argument" % (len(sites) + len(items))


def recursion_entry(fx, comp):
    """Table entry for a call-graph cycle: the cycle's functions, not counting module-private helpers that live in the module
    of a listed function (extracting a helper out of a listed function does not change the bound)."""
    from ..cg import vis_kind
    paths = frozenset(clean_path(fx.fns[k]["path"]) for k in comp)
    if paths in RECURSION:
        return paths
    for key in RECURSION:
        if not key <= paths:
            continue
        mods = {p.rsplit("::", 1)[0] for p in key}
        extra = [k for k in comp if clean_path(fx.fns[k]["path"]) not in key]
        if all((fx.fns[k]["kind"] == "Closure" or vis_kind(fx.fns[k]) == "private") and
               any(clean_path(fx.root_of(fx.fns[k])["path"]).startswith(m + "::") for m in mods) for k in extra):
            return key
    return None

# Loops that are not driven by Iterator::next (D3): (function path) -> termination argument
LOOPS = {
}


CLIPPY_LINTS = ["unwrap_used", "expect_used", "indexing_slicing", "string_slice", "panic", "arithmetic_side_effects", "unreachable",
                "unimplemented", "todo"]


def clippy_crosscheck(ctx):
    """Thorough tier: a one-directional consistency check of the extractor (not a verdict about the repository). Every site that
    clippy's restriction lints for panics / unchecked arithmetic / indexing report in the library must lie inside the source span
    of a construct of the C14 inventory (taken over ALL functions, in scope or not)."""
    import json, os, subprocess
    from ..engine import CACHE, nightly_sysroot
    fx = ctx.fx
    repo = ctx.info["repo"]
    spans = {}
    n_inv = 0
    for f in fx.doc["fns"]:
        for (bb, t, kind, descr) in sites_of(f):
            m = re.match(r"^(.*?):(\d+):\d+-(\d+):\d+$", t.get("at") or "")
            if m:
                n_inv += 1
                spans.setdefault(m.group(1), []).append((int(m.group(2)), int(m.group(3)), descr))
    env = dict(os.environ)
    env.update({"CARGO_NET_OFFLINE": "true", "CARGO_TARGET_DIR": os.path.join(CACHE, "clippy-target")})
    cmd = ["cargo", "+nightly", "clippy", "--offline", "--lib", "--message-format=json", "--", "-A", "clippy::all"]
    for l in CLIPPY_LINTS:
        cmd += ["-W", "clippy::" + l]
    # clippy replays nothing when the crate is fresh: touch nothing in the repo, remove our own fingerprint instead
    fp = os.path.join(CACHE, "clippy-target", "debug", ".fingerprint")
    if os.path.isdir(fp):
        for d in os.listdir(fp):
            if d.startswith("in-toto-"):
                subprocess.run(["rm", "-rf", os.path.join(fp, d)])
    r = subprocess.run(cmd, cwd=repo, env=env, stdout=subprocess.PIPE, stderr=subprocess.PIPE, text=True)
    sites = []
    for line in r.stdout.splitlines():
        try:
            o = json.loads(line)
        except ValueError:
            continue
        if o.get("reason") != "compiler-message":
            continue
        msg = o["message"]
        code = (msg.get("code") or {}).get("code") or ""
        if not code.startswith("clippy::"):
            continue
        for sp in msg.get("spans", []):
            if sp.get("is_primary"):
                sites.append((code, sp["file_name"], sp["line_start"], sp["line_end"]))
    if r.returncode != 0 and not sites:
        ctx.note("clippy cross-check skipped: cargo clippy exited %d (%s)" % (r.returncode, r.stderr.strip().splitlines()[-1:] or ""))
        return
    missing = []
    for (code, fn_, l1, l2) in sites:
        if not any(a <= l1 and l2 <= b_ for (a, b_, _d) in spans.get(fn_, [])):
            missing.append("%s at %s:%d" % (code, fn_, l1))
    ctx.inst("C14/xcheck", "every site of clippy's panic / arithmetic / indexing restriction lints lies in a construct of the inventory", not missing,
             "%d clippy site(s) (%s) against %d inventory constructs over all %d bodies; not covered: %s" % (
                 len(sites), ", ".join(CLIPPY_LINTS), n_inv, len(fx.doc["fns"]), missing))


def run(ctx):
    fx = ctx.fx
    cg = ctx.cg
    if ctx.tier == "thorough" and ctx.info.get("profile") == "dev":
        clippy_crosscheck(ctx)
    ents, missing = entries(fx)
    for m in missing:
        ctx.bad("C14/scope", "entry " + m, "public entry point pattern matches no function - anchor lost (failing closed)")
    ctx.inst("C14/scope", "entry set", len(ents) >= MIN_ENTRIES,
             "%d entry functions (floor %d)" % (len(ents), MIN_ENTRIES))
    seen = cg.reachable(ents)
    scope = sorted(seen)
    ctx.note("scope: %d of %d bodies reachable from %d entry functions" % (len(scope), len(fx.fns), len(ents)))
    out_of_scope_with_sites = []
    # ---- D1
    per_code = {}
    for k in scope:
        f = fx.fns[k]
        sl = list(sites_of(f))
        if not sl:
            continue
        ctx.touch_fn(f)
        body = Body(f)
        ordinal = {}
        for (bb, t, kind, descr) in sl:
            if bb not in body.reach:
                continue
            ordinal[descr] = ordinal.get(descr, 0) + 1
            fpath = clean_path(f["path"])
            key = "%s | %s #%d" % (fpath, descr, ordinal[descr])
            res = None
            try:
                res = discharge(fx, body, bb, t, kind, descr, cg, k)
            except Exception as e:  # a recogniser bug must never discharge
                res = None
                ctx.note("discharge error at %s: %r" % (key, e))
            if res is None:
                try:
                    res = discharge_in_region(fx, cg, k, bb, t, kind, descr)
                except Exception as e:
                    ctx.note("region discharge error at %s: %r" % (key, e))
            rpath = clean_path(fx.root_of(f)["path"])      # a closure belongs to the function it is written in
            if res is None and ((fpath, descr) in REVIEWED or (rpath, descr) in REVIEWED):
                res = ("G5-reviewed", REVIEWED.get((fpath, descr)) or REVIEWED[(rpath, descr)])
            if res is None and f.get("exp") and (f["exp"].startswith("d:EnumIter")):
                res = ("G6", "strum EnumIter: index arithmetic over the number of variants (compile-time bounded)") \
                    if kind == "assert" and t["msg"] == "overflow" else None
            if res:
                per_code[res[0]] = per_code.get(res[0], 0) + 1
                ctx.ok("C14/D1", key, "%s: %s" % res, t["at"])
            else:
                chain = " -> ".join(clean_path(x) for x in cg.chain(seen, k)[:6])
                ctx.bad("C14/D1", key, "panic-capable construct with no dominating guard; reachable: %s" % chain, t["at"])
    ctx.note("discharges by rule: %s" % per_code)
    # out-of-scope functions with panic sites (listed, not judged)
    oos = []
    for k, f in fx.fns.items():
        if k in seen or f.get("exp"):
            continue
        if any(True for _ in sites_of(f)):
            oos.append(clean_path(f["path"]))
    ctx.note("functions with panic-capable constructs that are NOT reachable from the entry set (out of scope): %s" % sorted(set(oos)))
    # ---- D2 recursion
    def real_edge(a, b, why):
        # callback edges are an over-approximation: only serde's own callbacks are kept for cycles
        return not why.startswith("callback:") or why.split(":")[1] in ("serde", "serde_json")
    for comp in cg.sccs(set(scope), real_edge):
        paths = frozenset(clean_path(fx.fns[k]["path"]) for k in comp)
        f0 = fx.fns[comp[0]]
        derived = all(fx.fns[k].get("exp") for k in comp)
        key = " <-> ".join(sorted(paths))
        rk = recursion_entry(fx, comp)
        sr = structural_recursion(fx, comp)
        if sr is not None:
            ctx.ok("C14/D2", key, sr + " (depth = nesting depth of the value; serde_json bounds parsed input at 128 levels)", f0["at"])
        elif rk is not None:
            ctx.ok("C14/D2", key, "bounded: " + RECURSION[rk], f0["at"])
        elif all(_is_serde_impl(fx.fns[k]) for k in comp):
            ctx.ok("C14/D2", key, "call-graph cycle introduced by the callback over-approximation between serde impl methods of one "
                   "non-recursive type family (data types are not recursive: see type check below)", f0["at"])
        else:
            ctx.bad("C14/D2", key, "recursion cycle not in the bounded-recursion table", f0["at"])
    # recursive data types would make the serde cycles real: check none of the wire ADTs is recursive
    wire = {im["self_adt"] for im in fx.impls if norm(im.get("trait")) in ("serde::Deserialize",) and im.get("self_adt")}
    rec = _recursive_adts(fx) & wire
    ctx.inst("C14/D2", "wire types are not recursive", not rec, "recursive local ADTs: %s" % sorted(rec) if rec else
             "none of the %d local types implementing Deserialize mentions itself (directly or transitively) in a field type" % len(wire))
    # ---- D3 loops
    for k in scope:
        f = fx.fns[k]
        body = Body(f)
        heads = {}
        for (e, tb) in body.back_edges():
            heads.setdefault(tb, []).append(e)
        for h in sorted(heads):
            fpath = clean_path(f["path"])
            key = "%s | loop@%d" % (fpath, sorted(heads).index(h))
            driver = _loop_driver(body, h)
            if driver:
                ctx.ok("C14/D3", key, "driven by %s (finite iterator)" % driver, body.at(h))
            elif fpath in LOOPS:
                ctx.ok("C14/D3", key, "table: " + LOOPS[fpath], body.at(h))
            else:
                ctx.bad("C14/D3", key, "loop is not driven by Iterator::next and is not in the termination table", body.at(h))


def _is_serde_impl(f):
    tr = norm(f.get("impl_trait")) or ""
    if tr.startswith("serde::") or tr in ("std::convert::TryFrom", "std::convert::From", "std::convert::Into",
                                          "std::convert::TryInto", "models::metadata::Metadata"):
        return True
    p = f["path"]
    return bool(re.search(r"::(try_into|from|into_enum|new|from_\w+)$", p))


def _recursive_adts(fx):
    names = set(fx.adts)
    deps = {}
    for p, a in fx.adts.items():
        s = set()
        for v in a["variants"]:
            for fl in v["fields"]:
                for m in re.findall(r"[A-Za-z_][A-Za-z0-9_]*(?:::[A-Za-z_][A-Za-z0-9_]*)+", fl["ty"]):
                    if m in names:
                        s.add(m)
        deps[p] = s
    rec = set()
    for p in names:
        seen = set()
        stack = list(deps[p])
        while stack:
            q = stack.pop()
            if q == p:
                rec.add(p)
                break
            if q in seen:
                continue
            seen.add(q)
            stack.extend(deps.get(q, ()))
    return rec


def _loop_driver(body, header):
    """Loop header (or a block of the loop that dominates all back edges) calls Iterator::next-like."""
    loop = body.loop_blocks(header)
    for b in sorted(loop):
        t = body.blocks[b]["term"]
        if t and t["k"] == "call":
            n = callee_name(t) or ""
            if n in ("std::iter::Iterator::next", "std::iter::DoubleEndedIterator::next_back",
                     "serde::de::SeqAccess::next_element", "serde::de::MapAccess::next_key",
                     "serde::de::MapAccess::next_entry", "serde::de::SeqAccess::next_element_seed",
                     "serde::de::MapAccess::next_key_seed"):
                # every back edge must be dominated by this call (no way round the loop without consuming)
                if all(body.dominates(b, e[0]) for (e, tb) in body.back_edges() if tb == header):
                    return "%s at bb%d" % (short(n), b)
            if n == "std::io::Read::read" and all(body.dominates(b, e[0]) for (e, tb) in body.back_edges() if tb == header):
                # a read loop: left when read returns 0 (end of stream); an Err leaves it as well
                for (e, tb, fa) in body.all_edge_facts():
                    if e[0] not in loop or tb in loop:
                        continue
                    c = as_cmp(fa)
                    zero = None
                    if c and c[0] == "Eq":
                        zero = c[1] if const_int(body, c[2]) == 0 else (c[2] if const_int(body, c[1]) == 0 else None)
                    elif fa[0] == "int" and fa[2] == 0:
                        zero = fa[1]
                    if zero is not None:
                        rc = _read_call_of(body, zero)
                        if rc is not None and rc is t:
                            return "Read::read at bb%d (loop left when it returns 0: reads make progress on a finite stream)" % b
    return None
