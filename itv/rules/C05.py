"""C05 - any meaningful change to signed content invalidates its signatures."""
from ..core import (Body, callee_name, norm, op_const, op_place, proj_path, as_cmp, leaf_s, OK, F0, F1, SOME, ELEM)
from ..guards import root_ids, body_of, def_call
from ..ss import Schema
from . import canon, C16, shared, keys

EXPLANATION = (
    "Coverage and structure rules. D1: every field of every type in the serialisation closure of MetadataWrapper is "
    "written into the signed document - derived structs emit each field unconditionally or omit it only under "
    "Option::is_none; the Layout / Link shims copy every metadata field (expiry through a seconds-precision formatter); the "
    "hand-written rule serialiser emits every binding of every variant; the key serialiser writes the stored type, scheme, "
    "hash-algorithm list and key material. D2: the bytes given to sign and to verify are derived from the canonical bytes "
    "of the same metadata by the same chain at all sites. D3: the canonical writer is structure preserving: every "
    "serde_json::Value variant is mapped explicitly, arrays and objects convert and emit every element (loops without early "
    "exit), separators are the C10 constants and strings and keys go through the same encoder.")
DECIDED = ["D1 every observable field is signed", "D2 one derivation of the signed bytes", "D3 the canonical writer is structure preserving"]
UNDECIDED = ["string-level injectivity of the escaping (paper argument: the OLPC form escapes exactly quote and backslash, so nothing else can end or alter a string; "
             "the premise - one sequential un-escaper with that dispatch - is what C11 extracts)"]
TRUSTED = ["serde derive semantics", "serde_json::to_string is injective on strings"]
ASSUMPTIONS = []
FLOORS = {"C05/D1": 22, "C05/D2": 20, "C05/D3": 8}


def run(ctx):
    canon.resolve_names(ctx)
    fx = ctx.fx
    S = Schema(fx)
    closure = sorted(S.wire_closure(["models::metadata::MetadataWrapper"]))
    ctx.note("signed closure: %s" % closure)
    # hand-written serialisers of single-field wrappers (Command, KeyId ..) write the field as it is: the signed bytes record the
    # value, not a re-tokenised or normalised copy of it (two different argument vectors must not share signed bytes)
    from . import keys as _keys
    _keys.check_newtype_serialize(ctx, "C05/D1", set(closure))
    # ---- D1 derived structs
    for a in closure:
        s = S.ser.get(a)
        adt = fx.adts[a]
        if not s or not s["derived"] or adt["kind"] != "Struct" or not ("serialize_struct" in s["kind"] or "serialize_map" in s["kind"]):
            continue
        fields = {fl["name"]: fl["ty"] for fl in adt["variants"][0]["fields"]}
        probs = []
        emitted = {e["field"] for e in s["entries"]} | set(s["flatten"])
        if emitted != set(fields):
            probs.append("fields never written: %s" % sorted(set(fields) - emitted))
        for e in s["entries"]:
            if e["guard"]:
                fty = fields.get(e["field"], "?")
                if not (fty.startswith("std::option::Option<") and all(g[0] == "std::option::Option::is_none" and g[1] is False and g[2] == e["field"] for g in e["guard"])):
                    probs.append("field %s omitted under %s" % (e["field"], e["guard"]))
        if s["skips"] and not all(any(e["key"] == k for e in s["entries"]) for k in s["skips"]):
            probs.append("skipped keys %s" % s["skips"])
        ctx.inst("C05/D1", "%s writes every field" % a, not probs, "; ".join(probs) if probs else "fields written: %s" % sorted(emitted), s["at"])
    # newtype / enum members of the closure
    for a in closure:
        s = S.ser.get(a)
        adt = fx.adts[a]
        if s and s["derived"] and adt["kind"] == "Enum" and s["variants"]:
            names = {v["name"] for v in adt["variants"]}
            arms = {v["arm"] for v in s["variants"]}
            ctx.inst("C05/D1", "%s writes every variant" % a, names == arms, "variants %s; serialised arms %s" % (sorted(names), sorted(x for x in arms if x)), s["at"])
    # shims (metadata -> wire struct), only the `from` direction matters for signing
    C16.check_shims(ctx, S, "C05/D1")
    # expiry to the second
    ff = fx.fn_opt("models::layout::Layout::from")
    if ff:
        # in the REGION of the metadata -> wire conversion (the private formatter inlined)
        b = ctx.region(None, policy="private", key=ff["key"])
        calls = b.calls_named("chrono::DateTime::to_rfc3339_opts")
        oks = len(calls) == 1
        fmt = None
        if oks:
            lv = b.trace(calls[0][1]["args"][1])
            fmt = [l.data[2].get("variant") if l.kind == "agg" else leaf_s(b, l) for l in lv]
            oks = fmt == ["Secs"] and root_ids(b, calls[0][1]["args"][0]) == frozenset([("param", 1, (("f", "expires"),))])
        ctx.inst("C05/D1", "expiry is written to the second", oks, "the expiry is formatted by to_rfc3339_opts(%s, ..) applied to meta.expires" % fmt, ff["at"])
    else:
        ctx.bad("C05/D1", "expiry formatter", "models::layout::Layout::from not found")
    # hand-written rule serialiser: every binding of every variant reaches an emitted element
    rs = S.ser_fn.get("models::layout::rule::ArtifactRule")
    if rs is None:
        ctx.bad("C05/D1", "rule serialiser", "not found")
    else:
        b = ctx.region(None, policy="private", key=rs["key"], ps=True)
        adt = fx.adts["models::layout::rule::ArtifactRule"]
        elems = b.calls_named("serde::ser::SerializeSeq::serialize_element")
        emitted_paths = {}
        for (i, t) in elems:
            arm = None
            for (e, fa) in b.facts_dominating(i):
                if fa[0] == "variant" and (fa[3] or "").endswith("ArtifactRule"):
                    arm = fa[2]
            for l in b.trace(t["args"][1], (), None, {"__flow_all__": lambda tt: callee_name(tt) in (
                    "std::convert::AsRef::as_ref", "std::vec::Vec::append", "std::ops::Deref::deref", "models::layout::rule::ArtifactRule::pattern"),
                    "__agg_all__": True}, follow_mut=True):
                if l.kind == "param" and l.data == 1 and not l.path and "ArtifactRule::pattern" in l.via:
                    # the public accessor pattern() yields the pattern binding of whichever variant self is
                    for v_ in adt["variants"]:
                        emitted_paths.setdefault(v_["name"], set()).add((v_["fields"][0]["name"],))
                    continue
                if l.kind == "param" and l.data == 1:
                    # the variant is named by the binding's own path when arms share one emit site
                    vs = [x[1] for x in l.path if x[0] == "v"]
                    emitted_paths.setdefault(vs[0] if vs else arm, set()).add(tuple(x[1] for x in l.path if x[0] == "f"))
                if l.kind == "mut":
                    # Vec::append(&mut to_be_serialized, &mut vec![..]): follow the appended vector's contents
                    mt = l.data[1]
                    for a_ in mt["args"][1:]:
                        for l2 in b.trace(a_, (), None, {"__flow_all__": lambda tt: callee_name(tt) in ("std::convert::AsRef::as_ref", "std::ops::Deref::deref"), "__agg_all__": True}):
                            if l2.kind == "param" and l2.data == 1:
                                vs = [x[1] for x in l2.path if x[0] == "v"]
                                emitted_paths.setdefault(vs[0] if vs else arm, set()).add(tuple(x[1] for x in l2.path if x[0] == "f"))
        for v in adt["variants"]:
            want = {fl["name"] for fl in v["fields"]}
            got = set()
            for pth in emitted_paths.get(v["name"], set()):
                got |= {x for x in pth if x in want}
            # the Match arm builds a vector first and emits its elements in a loop: bindings reach the vector
            ctx.inst("C05/D1", "rule %s writes every binding" % v["name"], want <= got, "bindings %s; written %s" % (sorted(want), sorted(got)), rs["at"])
    # key serialiser
    ser = [g for g in fx.doc["fns"] if g["path"].startswith("<crypto::PublicKey as") and g["path"].endswith("Serialize>::serialize")]
    if len(ser) == 1:
        wf = keys.wire_form_args(ctx, ser[0]["key"])
        got = {}
        if wf:
            wb, wt, parts = wf
            for name in ("typ", "scheme", "keyid_hash_algorithms"):
                got[name] = sorted({l.path[0][1] if (l.kind == "param" and l.data == 1 and l.path) else "?" for l in parts[name]})
            # the key text is computed from the stored key bytes (and the key type, which selects the encoding)
            got["value"] = sorted({l.path[0][1] if (l.kind == "param" and l.data == 1 and l.path) else "?" for l in parts["value"]})
        okk = bool(wf) and got["typ"] == ["typ"] and got["scheme"] == ["scheme"] and got["keyid_hash_algorithms"] == ["keyid_hash_algorithms"] \
            and "value" in got["value"] and set(got["value"]) <= {"value", "typ"}
        ctx.inst("C05/D1", "key serialiser writes type, scheme, hash algorithms and key material", okk,
                 "wire form built from self.%s" % got, ser[0]["at"])
    else:
        ctx.bad("C05/D1", "key serialiser", "not found")
    # ---- D2
    canon.to_bytes_is_canonical(ctx, "C05/D2")
    chains = canon.check_derivations(ctx, "C05/D2")
    # premise of the injectivity argument: quote and backslash stay escaped, every other escape is undone by one sequential scanner
    canon.check_olpc(ctx, chains, "C05/D2", "C05/D2")
    # ---- D3
    canon.check_writer(ctx, "C05/D3", "C05/D3")
    canon.check_convert(ctx, "C05/D3", "C05/D3")
    cf = fx.fn_opt(canon.CONVERT)
    if cf:
        b = ctx.region(None, policy="private", key=cf["key"])
        arms = None
        for (e, tb, fa) in b.all_edge_facts():
            if fa[0] in ("variant", "notvariant") and (fa[3] or "") == "serde_json::Value":
                arms = arms or set()
                if fa[0] == "variant":
                    arms.add(fa[2])
        ctx.inst("C05/D3", "every serde_json::Value variant is converted explicitly", arms == {"Null", "Bool", "Number", "String", "Array", "Object"},
                 "variants with an explicit arm in convert: %s" % sorted(arms or []), cf["at"])
    wf = fx.fn_opt(canon.WRITE)
    if wf:
        b = ctx.region(None, policy="private", key=wf["key"], ps=True)
        lps = b.loops()
        rec = [(i, t) for (i, t) in b.calls_named(canon.WRITE)]
        # (a slice pattern `[head, tail @ ..]` writes the first element in front of the loop over the rest)
        in_loop = [(i, t) for (i, t) in rec if any(i in l for l in lps.values())]
        okl = len(in_loop) >= 2 and all(not b.continuing_exits(min([l for l in lps.values() if i in l], key=len)) for (i, t) in in_loop)
        ctx.inst("C05/D3", "arrays and objects emit every element", okl, "recursive write calls inside loops without early exit: %s" % okl, wf["at"])
