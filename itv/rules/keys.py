"""Key identity rules shared by C12 and C16."""
from ..core import (Body, callee_name, norm, op_const, op_place, proj_path, as_cmp, as_pred, leaf_s, OK, F0, F1, SOME, ELEM)
from ..guards import root_ids, body_of, def_call

PK = "crypto::PublicKey"
SHIM_ACC = {"interchange::cjson::shims::PublicKey::keyid_hash_algorithms": "keyid_hash_algorithms",
            "interchange::cjson::shims::PublicKey::scheme": "scheme",
            "interchange::cjson::shims::PublicKey::keytype": "keytype",
            "interchange::cjson::shims::PublicKey::public_key": "public_key"}


def check_pubkey_deser(ctx, rule):
    """PublicKey's Deserialize passes the *parsed* hash-algorithm list and scheme to the constructor."""
    fx = ctx.fx
    df = [g for g in fx.doc["fns"] if g["path"].startswith("<crypto::PublicKey as") and g["path"].endswith("Deserialize<'de>>::deserialize")]
    if len(df) != 1:
        ctx.bad(rule, "PublicKey decoder", "hand-written Deserialize for PublicKey not found")
        return
    # the decoder's region: module-private helpers (per-key-type readers, a final check) inlined, combinators desugared
    b = ctx.region(None, policy="private", key=df[0]["key"], ps=True)
    # constructors: local functions returning Result<PublicKey, _> / PublicKey (public from_* entry points, or the private constructor)
    def _is_ctor(t):
        k = t.get("resolved_key") or t.get("callee_key")
        f = fx.fns.get(k)
        return bool(f) and f["kind"] in ("Fn", "AssocFn") and not f.get("impl_trait") and "crypto::PublicKey" in f["locals"][0]["ty"] \
            and f["locals"][0]["ty"].replace("std::result::Result<", "").startswith("crypto::PublicKey")
    ctors = [(i, t) for (i, t) in b.calls() if _is_ctor(t)]
    if not ctors:
        ctx.bad(rule, "PublicKey decoder", "no constructor call found in PublicKey::deserialize")
        return
    for (i, t) in ctors:
        cf = fx.fns.get(t.get("resolved_key") or t.get("callee_key"))
        if cf is None:
            continue
        # which parameters are the hash-algorithm list and the scheme: by type
        for ai, ty in enumerate(t.get("arg_tys") or []):
            if "Option<std::vec::Vec<std::string::String>>" in ty:
                lv = b.trace(t["args"][ai])
                okh = bool(lv) and all(l.kind == "call" and SHIM_ACC.get(callee_name(l.data[1])) == "keyid_hash_algorithms" for l in lv)
                ctx.inst(rule, "%s receives the parsed keyid_hash_algorithms" % callee_name(t).split("::")[-1], okh,
                         "hash-algorithm argument <- {%s}" % ", ".join(leaf_s(b, l) for l in lv), t["at"])
            if ty.endswith("crypto::SignatureScheme"):
                lv = b.trace(t["args"][ai])
                oks = bool(lv) and all(l.kind == "call" and SHIM_ACC.get(callee_name(l.data[1])) == "scheme" for l in lv)
                ctx.inst(rule, "%s receives the parsed scheme" % callee_name(t).split("::")[-1], oks,
                         "scheme argument <- {%s}" % ", ".join(leaf_s(b, l) for l in lv), t["at"])
    # the private constructor, inlined into the region: the same two operands, at the place the key is put together
    for i in sorted(b.reach):
        for st in b.blocks[i]["stmts"]:
            if st["k"] == "assign" and st["rv"]["k"] == "agg" and st["rv"].get("agg") == "adt" and st["rv"].get("adt") == PK:
                for (fname, acc) in (("keyid_hash_algorithms", "keyid_hash_algorithms"), ("scheme", "scheme")):
                    if fname in st["rv"]["fields"]:
                        lv = b.trace(st["rv"]["ops"][st["rv"]["fields"].index(fname)])
                        okf = bool(lv) and all(l.kind == "call" and SHIM_ACC.get(callee_name(l.data[1])) == acc for l in lv)
                        ctx.inst(rule, "the key built in the decoder stores the parsed %s" % fname, okf,
                                 "%s <- {%s}" % (fname, ", ".join(leaf_s(b, l) for l in lv)), st.get("at") or b.at(i))
    # the Ok payload is what a constructor returned, untouched
    lv = b.trace({"l": 0, "p": []}, (OK, F0))
    okp = bool(lv) and all((l.kind == "call" and l.data[0] in {i for (i, t) in ctors}) or
                           (l.kind == "agg" and l.data[2].get("adt") == PK and not l.path) for l in lv)   # the private constructor, inlined
    writes = [d for d in b.defs.values() for x in d if x.kind == "assign" and any(isinstance(e, dict) and e.get("of", "").startswith("crypto::PublicKey::") for e in x.node["dst"]["p"])]
    ctx.inst(rule, "decoded key is the constructor's result, unmodified", okp and not writes,
             "Ok payload <- {%s}; field assignments to a PublicKey in the decoder: %d" % (", ".join(leaf_s(b, l) for l in lv), len(writes)), df[0]["at"])


def find_shim_fn(fx):
    """The function that builds the wire form of a public key, by role: the hand-written local function (not a trait impl
    method) that calls shims::PublicKey::new."""
    c = [f for f in fx.doc["fns"] if f["kind"] in ("Fn", "AssocFn") and not f.get("exp") and not f.get("impl_trait") and
         any(b["term"] and b["term"]["k"] == "call" and not b["cleanup"] and callee_name(b["term"]) == "interchange::cjson::shims::PublicKey::new"
             for b in f["blocks"])]
    return c[0] if len(c) == 1 else None


SHIM_CTOR = "interchange::cjson::shims::PublicKey::new"     # public constructor of the wire form (keytype, scheme, hash algorithms, key text, keyid, private)


def wire_form_args(ctx, fn_key):
    """In the REGION of a function (module-private helpers inlined, whatever they are called and however they pass their
    arguments): the single construction of the wire form of a public key and where its parts come from.
    -> (region body, call term, {part: leaves}) or None"""
    b = ctx.region(None, policy="private", key=fn_key, ps=True)
    sc = b.calls_named(SHIM_CTOR)
    if len(sc) != 1:
        return None
    t = sc[0][1]
    flow = {"__flow_all__": lambda tt: True, "__agg_all__": True}
    parts = {}
    for name, ai in (("typ", 0), ("scheme", 1), ("keyid_hash_algorithms", 2)):
        parts[name] = b.trace(t["args"][ai])
    def expand(lv, depth=0):
        out = []
        for l in lv:
            if l.kind == "agg" and l.data[2].get("agg") == "closure" and depth < 3:
                for o in l.data[2]["ops"]:         # what a closure captures is what it can use
                    out += expand(b.trace(o, (), None, flow), depth + 1)
            elif l.kind != "const":
                out.append(l)
        return out
    parts["value"] = expand(b.trace(t["args"][3], (), None, flow))
    parts["keyid"] = b.trace(t["args"][4])
    parts["private"] = b.trace(t["args"][5], (), None, flow)
    return b, t, parts


def check_key_table_filter(ctx, rule):
    """Parsed layouts keep only key-table entries filed under the key's own id; the builder files under key.key_id()."""
    fx = ctx.fx
    tf = fx.fn_opt("models::layout::Layout::try_into")
    if tf is None:
        ctx.bad(rule, "Layout::try_into", "not found")
        return
    b = ctx.region(None, policy="private", key=tf["key"], ps=True)
    news = b.calls_named("models::layout::metadata::LayoutMetadata::new")
    okf = False
    detail = "LayoutMetadata::new call not found"
    KEYS_OF_SELF = ("param", 1, (("f", "keys"),))
    if len(news) == 1:
        nf = fx.fn("models::layout::metadata::LayoutMetadata::new")
        nb = body_of(fx, nf["key"])
        pl = nb.trace({"l": 0, "p": []}, (("f", "keys"),))
        if pl and all(l.kind == "param" for l in pl):
            arg = news[0][1]["args"][pl[0].data - 1]
            stop = lambda t: callee_name(t) in ("std::iter::Iterator::filter", "std::iter::Iterator::filter_map", "std::collections::HashMap::new",
                                                "std::collections::BTreeMap::new", "std::default::Default::default")
            lv = b.trace(arg, (), stop)
            detail = "keys <- {%s}" % ", ".join(leaf_s(b, l) for l in lv)
            okf = bool(lv)
            for l in lv:
                if l.kind == "call" and callee_name(l.data[1]) in ("std::collections::HashMap::new", "std::collections::BTreeMap::new", "std::default::Default::default") \
                        and not l.path and set(l.via) <= {"Iterator::collect", "FromIterator::from_iter"}:
                    # shape B: a table filled by insertions; each insertion is (id, key) of one entry of self.keys and is
                    # edge-dominated by `id == key.key_id()`
                    table = ("call", l.data[0], ())
                    ins = [(i, t) for (i, t) in b.calls_named("std::collections::HashMap::insert", "std::collections::BTreeMap::insert")
                           if table in root_ids(b, t["args"][0])]
                    others = [(i, callee_name(t)) for (i, t) in b.calls() if t["args"] and table in root_ids(b, t["args"][0])
                              and callee_name(t).split("::")[-1] in ("extend", "entry", "append", "insert_entry", "try_insert")]
                    if not ins or others:
                        okf = False
                        detail += "; table filled by %d insertion(s), other writers %s" % (len(ins), others)
                    for (i, t) in ins:
                        kr, vr = root_ids(b, t["args"][1]), root_ids(b, t["args"][2])
                        entry = {(k, i_, p[:-1]) for (k, i_, p) in kr if p[-1:] == (F0,)} == {(k, i_, p[:-1]) for (k, i_, p) in vr if p[-1:] == (F1,)} \
                            and bool(kr) and all(p[-1:] == (F0,) and (k, i_, p[:-2]) == KEYS_OF_SELF for (k, i_, p) in kr) and all(p[-1:] == (F1,) for (k, i_, p) in vr)
                        eqok = False
                        for (e, fa) in b.facts_dominating(i):
                            cm = as_cmp(fa)
                            if cm and cm[0] == "Eq":
                                for (u, v) in ((cm[1], cm[2]), (cm[2], cm[1])):
                                    if root_ids(b, u) == kr:
                                        vl = b.trace(v)
                                        if vl and all(x.kind == "call" and callee_name(x.data[1]) == "crypto::PublicKey::key_id" and
                                                      root_ids(b, x.data[1]["args"][0]) == vr for x in vl):
                                            eqok = True
                        if not (entry and eqok):
                            okf = False
                            detail += "; insertion at %s: (id, key) of one entry of self.keys: %s, dominated by `id == key.key_id()`: %s" % (t["at"], entry, eqok)
                    continue
                if l.kind == "param" and (l.kind, l.data, l.path) == KEYS_OF_SELF and set(l.via) <= {"Iterator::collect", "FromIterator::from_iter", "IntoIterator::into_iter"}:
                    # shape C: the parsed table itself, pruned in place by `retain(|id, key| id == key.key_id())` before it is handed on
                    okc = False
                    for (ri, rt) in b.calls_named("std::collections::BTreeMap::retain", "std::collections::HashMap::retain"):
                        if not (root_ids(b, rt["args"][0]) == frozenset([KEYS_OF_SELF]) and b.dom_plain(ri, news[0][0])):
                            continue
                        pr = op_place(rt["args"][1])
                        dr = b.single_def(pr["l"]) if pr is not None and not pr["p"] else None
                        if not (dr and dr.kind == "assign" and dr.node["rv"].get("agg") == "closure" and dr.node["rv"]["closure_key"] in fx.fns):
                            continue
                        rcb = body_of(fx, dr.node["rv"]["closure_key"])
                        rl = rcb.trace({"l": 0, "p": []})
                        def _is_eq(x):
                            if not (x.kind == "call" and callee_name(x.data[1]) == "std::cmp::PartialEq::eq"):
                                return False
                            u, v = rcb.trace(x.data[1]["args"][0]), rcb.trace(x.data[1]["args"][1])
                            for (ul_, vl_) in ((u, v), (v, u)):
                                if ul_ and all(y.kind == "param" and y.data == 2 for y in ul_) and \
                                        vl_ and all(y.kind == "call" and callee_name(y.data[1]) == "crypto::PublicKey::key_id" and
                                                    all(z.kind == "param" and z.data == 3 for z in rcb.trace(y.data[1]["args"][0])) for y in vl_):
                                    return True
                            return False
                        if rl and all(_is_eq(x) for x in rl):
                            okc = True
                    if not okc:
                        okf = False
                        detail += "; the parsed table is handed on without a `retain(|id, key| id == key.key_id())` in front"
                    continue
                if not (l.kind == "call" and callee_name(l.data[1]) == "std::iter::Iterator::filter" and set(l.via) <= {"Iterator::collect", "FromIterator::from_iter"}):
                    okf = False
                    continue
                ft = l.data[1]
                src = root_ids(b, ft["args"][0])
                if src != frozenset([KEYS_OF_SELF]):
                    okf = False
                    detail += "; filter source %s" % sorted(src)
                p = op_place(ft["args"][1])
                d = b.single_def(p["l"]) if p else None
                cfn = op_const(ft["args"][1])
                ITEM = 2          # closure: _1 is the environment, _2 the element
                if d and d.kind == "assign" and d.node["rv"].get("agg") == "closure":
                    cb = body_of(fx, d.node["rv"]["closure_key"])
                elif cfn is not None and cfn.get("fn_key") in fx.fns:
                    cb = body_of(fx, cfn["fn_key"])     # a named predicate function
                    ITEM = 1
                else:
                    okf = False
                    continue
                # closure returns true only on an edge `pair.0 == PublicKey::key_id(pair.1)`
                trues = [(i, st) for i, blk in enumerate(cb.blocks) for st in blk["stmts"]
                         if st["k"] == "assign" and st["dst"]["l"] == 0 and not st["dst"]["p"] and i in cb.reach]
                good = True
                seen_true = False
                for (i, st) in trues:
                    c = op_const(st["rv"].get("op")) if st["rv"]["k"] == "use" else None
                    if c is not None and c.get("int") == 0:
                        continue
                    seen_true = True
                    eqok = False
                    for (e, fa) in cb.facts_dominating(i):
                        cm = as_cmp(fa)
                        if cm and cm[0] == "Eq":
                            for (u, v) in ((cm[1], cm[2]), (cm[2], cm[1])):
                                ul, vl = cb.trace(u), cb.trace(v)
                                if ul and all(x.kind == "param" and x.data == ITEM and x.path[-1:] == (F0,) for x in ul) and \
                                        vl and all(x.kind == "call" and callee_name(x.data[1]) == "crypto::PublicKey::key_id" and
                                                   all(y.kind == "param" and y.data == ITEM and y.path[-1:] == (F1,) for y in cb.trace(x.data[1]["args"][0])) for x in vl):
                                    eqok = True
                    if not eqok:
                        # the closure may return the comparison itself: `|(id, key)| id == key.key_id()`
                        if st["rv"]["k"] == "use" and op_place(st["rv"]["op"]):
                            dc = def_call(cb, st["rv"]["op"])
                            if dc and callee_name(dc[1]) == "std::cmp::PartialEq::eq":
                                ul, vl = cb.trace(dc[1]["args"][0]), cb.trace(dc[1]["args"][1])
                                for (ul_, vl_) in ((ul, vl), (vl, ul)):
                                    if ul_ and all(x.kind == "param" and x.data == ITEM and x.path[-1:] == (F0,) for x in ul_) and \
                                            vl_ and all(x.kind == "call" and callee_name(x.data[1]) == "crypto::PublicKey::key_id" and
                                                        all(y.kind == "param" and y.data == ITEM and y.path[-1:] == (F1,) for y in cb.trace(x.data[1]["args"][0])) for x in vl_):
                                        eqok = True
                    if not eqok:
                        good = False
                if not (good and seen_true):
                    okf = False
                    detail += "; filter predicate is not `table id == key.key_id()`"
    ctx.inst(rule, "parsed key table keeps only entries filed under the key's own id", okf, detail, tf["at"])
    ak = fx.fn_opt("models::layout::metadata::LayoutMetadataBuilder::add_key")
    if ak:
        ab = body_of(fx, ak["key"])
        ins = ab.calls_named("std::collections::HashMap::insert", "std::collections::BTreeMap::insert")
        oka = len(ins) == 1
        if oka:
            t = ins[0][1]
            kl = ab.trace(t["args"][1])
            vr = root_ids(ab, t["args"][2])
            oka = bool(kl) and all(l.kind == "call" and callee_name(l.data[1]) == "crypto::PublicKey::key_id" and root_ids(ab, l.data[1]["args"][0]) == vr for l in kl)
        ctx.inst(rule, "builder files a key under its own id", oka, "LayoutMetadataBuilder::add_key inserts (key.key_id(), key)", ak["at"])
    else:
        ctx.bad(rule, "builder add_key", "not found")


def _param_calls(fx, root_fn, names):
    """Calls to callees in `names` made by root_fn and its (nested) closures, with the KeyType arm that dominates
    each: [(callee name, arm or None, guards, body, bb, term)]."""
    out = []
    stack = [root_fn["key"]]
    seen = set()
    while stack:
        k = stack.pop()
        if k in seen:
            continue
        seen.add(k)
        stack += fx.closures_of.get(k, [])
        b = body_of(fx, k)
        for i, t in b.calls():
            for a in t["args"]:
                c = op_const(a)
                if c and c.get("fn_key") in fx.fns and fx.fns[c["fn_key"]]["kind"] in ("Fn", "AssocFn") and fx.fns[c["fn_key"]]["path"].startswith("crypto::"):
                    stack.append(c["fn_key"])
            n = callee_name(t)
            if n not in names:
                continue
            arm = None
            guards = []
            for (e, fa) in b.facts_dominating(i):
                if fa[0] == "variant" and (fa[3] or "").endswith("KeyType"):
                    arm = fa[2]
                if fa[0] == "notvariant" and (fa[3] or "").endswith("KeyType"):
                    arm = "not:" + ",".join(sorted(fa[2]))
                p = as_pred(fa)
                if p:
                    guards.append((p[0].split("::")[-1], p[2]))
            out.append((n, arm, guards, b, i, t))
    return out


def _calls_for_key_type(fx, root_key, kt, names, depth=0, seen=None):
    """Calls to `names` that can execute when the KeyType value tested along the way is `kt`: in each body (the function, the
    closures it creates and the local functions it calls, recursively) the edges on which a KeyType is known to be another
    variant are removed, and only what stays reachable counts.  -> [(name, body, bb, term)]"""
    if seen is None:
        seen = set()
    if root_key in seen or depth > 6 or root_key not in fx.fns:
        return []
    seen = seen | {root_key}
    b = body_of(fx, root_key)
    removed = set()
    for (e, tb, fa) in b.all_edge_facts():
        if fa[0] == "variant" and (fa[3] or "").endswith("KeyType") and fa[2] != kt:
            removed.add(e)
        if fa[0] == "notvariant" and (fa[3] or "").endswith("KeyType") and kt in fa[2]:
            removed.add(e)
    reach = b.reach_between(0, removed_edges=removed) if removed else set(b.reach)
    out = []
    for i in sorted(reach):
        blk = b.blocks[i]
        for st in blk["stmts"]:
            if st["k"] == "assign" and st["rv"].get("agg") == "closure":
                out += _calls_for_key_type(fx, st["rv"]["closure_key"], kt, names, depth + 1, seen)
        t = blk["term"]
        if t and t["k"] == "call":
            n = callee_name(t)
            if n in names:
                out.append((n, b, i, t))
            # a named local function handed to a combinator / parser callback instead of a closure
            for a in t["args"]:
                c = op_const(a)
                if c and c.get("fn_key") in fx.fns and fx.fns[c["fn_key"]]["kind"] in ("Fn", "AssocFn") and fx.fns[c["fn_key"]]["path"].startswith("crypto::"):
                    out += _calls_for_key_type(fx, c["fn_key"], kt, names, depth + 1, seen)
            ck = t.get("resolved_key") or t.get("callee_key")
            if ck in fx.fns and fx.fns[ck]["kind"] in ("Fn", "AssocFn") and not fx.fns[ck].get("impl_trait") \
                    and fx.fns[ck]["path"].startswith("crypto::") and "KeyType::" not in fx.fns[ck]["path"]:
                out += _calls_for_key_type(fx, ck, kt, names, depth + 1, seen)
    return out


def check_spki_tables(ctx, rule, standard):
    """The AlgorithmIdentifier parameters the exporter writes / the importer accepts, per key type, against the standard.
    Anchors are the public as_spki / from_spki; private helpers are followed, not named."""
    fx = ctx.fx
    wf = fx.fn_opt("crypto::PublicKey::as_spki")
    rf = fx.fn_opt("crypto::PublicKey::from_spki")
    if not wf or not rf:
        ctx.bad(rule, "SPKI functions", "PublicKey::as_spki / PublicKey::from_spki not found (failing closed)")
        return
    def tag_of(b, t):
        # second argument of element / expect_tag_and_get_value is the Tag
        for a in t["args"][1:2]:
            for l in b.trace(a):
                if l.kind == "agg":
                    return l.data[2].get("variant")
                if l.kind == "const":
                    return str(l.data.get("int", l.data.get("repr")))
        return "?"
    types = ["Rsa", "Ed25519", "Ecdsa"]
    wtable, rtable = {}, {}
    for kt in types:
        # ---- writer: everything after the algorithm OID (the first OID element) is the parameters
        calls = _calls_for_key_type(fx, wf["key"], kt, {"derp::Der::null", "derp::Der::element"})
        oids = [c for c in calls if c[0] == "derp::Der::element" and tag_of(c[1], c[3]) == "Oid"]
        other = [c for c in calls if c[0] == "derp::Der::element" and tag_of(c[1], c[3]) != "Oid"]
        nulls = [c for c in calls if c[0] == "derp::Der::null"]
        w = set()
        if len(oids) >= 2:
            w.add("OID")
        if nulls:
            w.add("NULL")
        for c in other:
            w.add("?" + tag_of(c[1], c[3]))
        if not w:
            w.add("ABSENT")
        if not oids:
            w.add("no algorithm OID")
        wtable[kt] = w
        # ---- reader
        calls = _calls_for_key_type(fx, rf["key"], kt, {"derp::read_null", "derp::expect_tag_and_get_value"})
        oids = [c for c in calls if c[0] == "derp::expect_tag_and_get_value" and tag_of(c[1], c[3]) == "Oid"]
        nulls = [c for c in calls if c[0] == "derp::read_null"]
        r = set()
        if len(oids) >= 2:
            r.add("OID")
        for (n, b, i, t) in nulls:
            r.add("NULL")
            for (e, fa) in b.facts_dominating(i):
                pr = as_pred(fa)
                if pr and pr[0].split("::")[-1] == "at_end" and pr[2] is False:
                    r.add("ABSENT")       # read only when something is left: absent parameters are accepted too
        if not r:
            r.add("ABSENT")
        rtable[kt] = r
    for kt in types:
        ctx.inst(rule, "exporter writes the standard parameters for %s" % kt, wtable[kt] == {standard[kt]},
                 "written: %s; standard: %s (writer table %s)" % (sorted(wtable[kt]), standard[kt], {k: sorted(v) for k, v in wtable.items()}), wf["at"])
    for kt in types:
        ctx.inst(rule, "importer accepts the standard parameters for %s" % kt, standard[kt] in rtable[kt],
                 "accepted: %s; standard: %s (reader table %s)" % (sorted(rtable[kt]), standard[kt], {k: sorted(v) for k, v in rtable.items()}), rf["at"])
    return wtable, rtable


def check_declared_passthrough(ctx, rule):
    """What the caller declares about a key is what the key carries: in every non-private constructor function of PublicKey
    that takes a SignatureScheme (or a key-id hash-algorithm list), the value stored in the key - or handed on to another
    constructor - is that parameter itself, whatever the key material turns out to be (a key imported under one scheme must
    not verify, or be identified, as a key of another)."""
    from ..cg import vis_kind
    fx = ctx.fx
    KINDS = (("scheme", lambda ty: ty.endswith("crypto::SignatureScheme")),
             ("keyid_hash_algorithms", lambda ty: "Option<std::vec::Vec<std::string::String>>" in ty.replace(" ", "")))
    def returns_pk(f):
        ty = f["locals"][0]["ty"]
        return ty.replace("std::result::Result<", "").startswith(PK) and not ty.replace("std::result::Result<", "").startswith(PK + "::")
    n = 0
    for f in fx.doc["fns"]:
        if f["kind"] not in ("Fn", "AssocFn") or f.get("impl_trait") or f.get("exp") or vis_kind(f) == "private" or not returns_pk(f):
            continue
        argc = f["arg_count"]
        ptys = [f["locals"][i]["ty"] for i in range(1, argc + 1)]
        mine = {name: [i + 1 for i, ty in enumerate(ptys) if pred(ty)] for (name, pred) in KINDS}
        if not any(mine.values()):
            continue
        b = ctx.region(None, policy="private", key=f["key"], ps=True)
        sinks = []
        for i in sorted(b.reach):
            for st in b.blocks[i]["stmts"]:
                if st["k"] == "assign" and st["rv"]["k"] == "agg" and st["rv"].get("agg") == "adt" and st["rv"].get("adt") == PK:
                    for (name, _p) in KINDS:
                        if name in st["rv"]["fields"]:
                            sinks.append((name, st["rv"]["ops"][st["rv"]["fields"].index(name)], st.get("at") or b.at(i), "stored in the key"))
        for (i, t) in b.calls():
            cf = fx.fns.get(t.get("resolved_key") or t.get("callee_key"))
            if cf is None or cf["kind"] not in ("Fn", "AssocFn") or cf.get("impl_trait") or not returns_pk(cf):
                continue
            for ai, ty in enumerate(t.get("arg_tys") or []):
                for (name, pred) in KINDS:
                    if pred(ty) and ai < len(t["args"]):
                        sinks.append((name, t["args"][ai], t["at"], "handed to " + callee_name(t).split("::")[-1]))
        for (name, op, at, how) in sinks:
            if not mine[name]:
                continue
            lv = b.trace(op)
            ok = bool(lv) and all(l.kind == "param" and l.data in mine[name] and not l.path and
                                  all(v in ("Clone::clone", "Option::cloned", "ToOwned::to_owned") for v in l.via) for l in lv)
            n += 1
            ctx.inst(rule, "%s: the declared %s is the one %s" % (f["path"].split("::")[-1], name, how), ok,
                     "%s <- {%s}" % (name, ", ".join(leaf_s(b, l) for l in lv)), at)
    if n == 0:
        ctx.bad(rule, "declared scheme kept", "no PublicKey constructor taking a SignatureScheme found (failing closed)")


def check_string_newtypes(ctx, RULE, closure=None):
    """Newtypes with a hand-written Deserialize: what is stored is the decoded value, untouched.  Always the string newtypes
    (VirtualTargetPath, KeyId); with `closure` (the ADTs of the wire closure) every single-field struct in it, whatever the
    field's type - a derived Serialize writes the field as it is, so a decoder that re-tokenises, trims or normalises what
    it read breaks the round trip."""
    fx = ctx.fx
    n_nt = 0
    for im in fx.impls:
        if norm(im.get("trait")) != "serde::Deserialize":
            continue
        adt = fx.adts.get(im.get("self_adt") or "")
        if not adt or len(adt["variants"]) != 1 or len(adt["variants"][0]["fields"]) != 1:
            continue
        is_string = [fl["ty"] for fl in adt["variants"][0]["fields"]] == ["std::string::String"]
        if not is_string and not (closure is not None and im.get("self_adt") in closure):
            continue
        for m in im["methods"]:
            f = fx.fns.get(m["key"])
            if not f or f.get("exp") or m["name"] != "deserialize":
                continue
            n_nt += is_string
            rb = ctx.region(None, policy="all-local", key=f["key"])
            fld0 = ("f", adt["variants"][0]["fields"][0]["name"])
            lv = rb.trace({"l": 0, "p": []}, (OK, F0, fld0))
            okn = bool(lv) and all(l.kind == "call" and (callee_name(l.data[1]) or "").endswith("Deserialize::deserialize") and l.path == (OK, F0) for l in lv)
            ctx.inst(RULE, "%s stores the decoded %s unchanged" % (im["self_ty"].split("::")[-1], "string" if is_string else "value"), okn,
                     "stored value <- {%s}" % ", ".join(leaf_s(rb, l) for l in lv), f["at"])
    if n_nt == 0:
        ctx.bad(RULE, "string newtypes", "no hand-written Deserialize impl of a string newtype found (VirtualTargetPath / KeyId expected)")


def check_newtype_serialize(ctx, RULE, closure):
    """Single-field structs of the wire closure with a hand-written Serialize write the field as it is (a derived Deserialize reads
    it back as it is): the value handed to the serializer is `self.0`, not a re-tokenised, trimmed or normalised copy."""
    fx = ctx.fx
    ALLOWED_VIA = {"Deref::deref", "String::as_str", "Vec::as_slice", "AsRef::as_ref", "slice::iter", "Vec::iter", "IntoIterator::into_iter",
                   "Vec::deref", "String::deref"}
    n = 0
    for im in fx.impls:
        if norm(im.get("trait")) != "serde::Serialize" or im.get("self_adt") not in closure:
            continue
        adt = fx.adts.get(im.get("self_adt") or "")
        if not adt or len(adt["variants"]) != 1 or len(adt["variants"][0]["fields"]) != 1:
            continue
        for m in im["methods"]:
            f = fx.fns.get(m["key"])
            if not f or f.get("exp") or m["name"] != "serialize":
                continue
            n += 1
            rb = ctx.region(None, policy="private", key=f["key"])
            fld0 = ("f", adt["variants"][0]["fields"][0]["name"])
            sinks = []
            for (i, t) in rb.calls():
                tr = norm(t.get("trait"))
                if tr == "serde::Serialize" and t["args"]:
                    sinks.append((t, t["args"][0]))
                elif tr == "serde::Serializer" and len(t["args"]) >= 2:
                    sinks.append((t, t["args"][1]))
            ok = bool(sinks)
            detail = []
            for (t, a) in sinks:
                lv = rb.trace(a)
                good = bool(lv) and all(l.kind == "param" and l.data == 1 and l.path[:1] == (fld0,) and set(l.via) <= ALLOWED_VIA for l in lv)
                ok = ok and good
                detail.append("%s <- {%s}" % (callee_name(t).split("::")[-1], ", ".join(leaf_s(rb, l) for l in lv)))
            ctx.inst(RULE, "%s writes its field unchanged" % im["self_ty"].split("::")[-1], ok, "; ".join(detail) or "no serializer call found", f["at"])
    return n


def check_custom_codecs_paired(ctx, RULE):
    """`#[serde(with = ..)]`, `serialize_with`, `deserialize_with`: a field decoded through a custom function that has no encoding
    counterpart in the same module is transformed on the way in only (sorted, de-duplicated, trimmed ..) - the value read back is
    not the value written.  The functions are found as the hand-written local functions that derive-generated code calls."""
    fx = ctx.fx
    sides = {"d:Deserialize": {}, "d:Serialize": {}}
    for g in fx.doc["fns"]:
        for side in sides:
            if side not in (g.get("exp") or ""):
                continue
            for blk in g["blocks"]:
                t = blk["term"]
                if not t or t["k"] != "call" or blk["cleanup"]:
                    continue
                c = fx.fns.get(t.get("resolved_key") or t.get("callee_key"))
                if c and not c.get("exp") and c["kind"] in ("Fn", "AssocFn") and not c["path"].startswith("<"):
                    sides[side].setdefault(c["path"], t["at"])
    de_mods = {p.rsplit("::", 1)[0]: (p, at) for p, at in sides["d:Deserialize"].items()}
    ser_mods = {p.rsplit("::", 1)[0]: (p, at) for p, at in sides["d:Serialize"].items()}
    for mod in sorted(set(de_mods) | set(ser_mods)):
        ok = mod in de_mods and mod in ser_mods
        ctx.inst(RULE, "custom field codec %s works both ways" % mod, ok,
                 "decoding through %s, encoding through %s" % (de_mods.get(mod, ("NOTHING (derived encoding of the raw field)",))[0],
                                                               ser_mods.get(mod, ("NOTHING (derived decoding of the raw field)",))[0]),
                 (de_mods.get(mod) or ser_mods.get(mod))[1])
    ctx.ok(RULE, "custom field codec inventory", "%d decoding / %d encoding function(s) called from derive-generated code" % (
        len(sides["d:Deserialize"]), len(sides["d:Serialize"])))


def check_der_integers(ctx, rule):
    """Key material integers (RSA modulus, exponent) are read with `derp::positive_integer`, which strips the sign octet; they
    must be written back with `Der::positive_integer`, which restores it.  `Der::integer` writes the bytes as given: used on
    such a value it produces a different (for a value with the top bit set: negative) INTEGER, another SubjectPublicKeyInfo and
    another key id for the same key."""
    fx = ctx.fx
    reads, pos_writes, raw_writes = [], [], []
    for f in fx.doc["fns"]:
        if f.get("exp") or not f["path"].split("::")[0] in ("crypto",) and not f["path"].startswith("<crypto::"):
            continue
        for blk in f["blocks"]:
            t = blk["term"]
            if not t or t["k"] != "call" or blk["cleanup"]:
                continue
            n = callee_name(t) or ""
            if n == "derp::positive_integer":
                reads.append((f["path"], t["at"]))
            elif n == "derp::Der::positive_integer":
                pos_writes.append((f["path"], t["at"]))
            elif n == "derp::Der::integer":
                raw_writes.append((f["path"], t["at"]))
    ctx.inst(rule, "unsigned key integers are written with the sign-restoring writer", not raw_writes and len(pos_writes) >= 1,
             "derp::positive_integer reads: %d; Der::positive_integer writes: %d; raw Der::integer writes: %s" % (len(reads), len(pos_writes), raw_writes or "none"),
             (raw_writes or pos_writes or [(None, None)])[0][1])
