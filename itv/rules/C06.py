"""C06 - an expired layout is never accepted."""
from ..core import (Body, callee_name, op_place, op_const, proj_path, as_cmp, leaf_s, OK, F0, SOME, SWAP, norm)
from ..guards import root_ids, body_of
from ..pipeline import Pipeline, fld
from ..cg import region_body
from . import shared, subl

EXPLANATION = (
    "On the path-sensitive REGION super-graph of in_toto_verify: an expiry guard is a switch edge carrying a "
    "comparison between the `expires` field of the *verified* layout (Ok payload of the signature gate) and the "
    "result of chrono::Utc::now(). Its pass edge must state expires >= now (or >), must be dominated by the gate's Ok "
    "outcome, and must edge-dominate every later stage and every Ok return. The field is DateTime<Utc> and the only "
    "path from wire text to it is parse_from_rfc3339 -> with_timezone(Utc). Sub-layouts inherit the guard because the "
    "only conversion of layout evidence into link evidence is the recursive call of the public in_toto_verify.")
DECIDED = ["D1 guard position (after the gate, before every later stage and every Ok return)",
           "D2 guard operands and orientation", "D3 absolute time: field type and wire conversion chain",
           "D4 delegation goes through the full public pipeline"]
UNDECIDED = ["chrono's RFC 3339 parser and instant comparison"]
TRUSTED = ["chrono: DateTime<Utc> ordering is ordering of instants; parse_from_rfc3339 + with_timezone(Utc) preserves the instant"]
ASSUMPTIONS = []
FLOORS = {"C06/D1": 6, "C06/D2": 1, "C06/D3": 4, "C15/D1": 2}


def run(ctx):
    P = Pipeline(ctx)
    if not P.ok or P.gate is None:
        ctx.bad("C06/D1", "anchor", "in_toto_verify / signature gate not found (failing closed)")
        return
    b = P.b
    gbb = P.gate[0]
    guards = []
    for (e, tb, f) in b.all_edge_facts():
        c = as_cmp(f)
        if not c:
            continue
        op, x, y = c
        for (u, v, o) in ((x, y, op), (y, x, SWAP[op])):
            ul = b.trace(u)
            vl = b.trace(v)
            is_exp = P.is_verified_layout(u, (fld("expires"),))
            is_now = bool(vl) and all(lf.kind == "call" and callee_name(lf.data[1]) == "chrono::Utc::now" and not lf.path for lf in vl)
            mentions_now = any(lf.kind == "call" and "now" in (callee_name(lf.data[1]) or "") for lf in vl)
            mentions_exp = any(lf.path[-1:] == (fld("expires"),) for lf in ul)
            if is_exp and is_now:
                guards.append((e, tb, o))      # fact on this edge:  expires <o> now
            elif mentions_exp and mentions_now:
                ctx.bad("C06/D2", "expiry comparison operands", "comparison of an expiry with the clock whose operands are not "
                        "(verified layout).expires and Utc::now(): %s vs %s" % (P.leaves_s(u), P.leaves_s(v)), b.at(e[0]))
    if not guards:
        ctx.bad("C06/D2", "expiry guard", "no comparison between the verified layout's `expires` and chrono::Utc::now() found in the "
                "verification region (cannot show the guard)")
        return
    pass_edges = [(e, tb, o) for (e, tb, o) in guards if o in ("Ge", "Gt")]
    fail_edges = [(e, tb, o) for (e, tb, o) in guards if o in ("Lt", "Le")]
    ctx.inst("C06/D2", "expiry guard orientation", bool(pass_edges) and all(o in ("Lt", "Le", "Ge", "Gt") for (_, _, o) in guards),
             "guard edges: %s" % ", ".join("bb%d->bb%d: expires %s now" % (e[0], tb, o) for (e, tb, o) in guards), b.at(guards[0][0][0]))
    if not pass_edges:
        return
    pe = pass_edges[0][0]
    dom = b.edge_dominated(pe)
    # D1a: the guard is behind the gate
    ctx.inst("C06/D1", "guard after gate", P.dominated_by_ok(gbb, pe[0]), "the expiry comparison is %sdominated by the gate's Ok outcome" % (
        "" if P.dominated_by_ok(gbb, pe[0]) else "NOT "), b.at(pe[0]))
    # D1b: later stages dominated by the pass edge
    later = []
    for name, lst in (("file read", P.file_reads), ("file write", P.file_writes), ("process spawn", P.spawns),
                      ("inspection run", P.runs), ("sub-layout recursion", P.recursions),
                      ("link signature check", P.link_verifies), ("summary construction", P.summaries)):
        for (i, t) in lst:
            later.append((name, i, t))
    for (name, i, t) in later:
        ctx.inst("C06/D1", "%s %s%s" % (name, callee_name(t).split("::")[-1], P.inst_of(i).rsplit("@", 1)[0]), i in dom,
                 "%s is %sedge-dominated by the guard's `expires >= now` edge" % (callee_name(t), "" if i in dom else "NOT "), t["at"])
    n_ok = 0
    for lf in b.trace({"l": 0, "p": []}, (OK, F0)):
        if lf.kind in ("call", "agg", "binop", "unop", "discr", "other"):
            n_ok += 1
            ctx.inst("C06/D1", "Ok return via %s" % leaf_s(b, lf).split("@")[0], lf.data[0] in dom,
                     "Ok payload source at bb%d is %sdominated by the guard's pass edge" % (lf.data[0], "" if lf.data[0] in dom else "NOT "))
        else:
            ctx.bad("C06/D1", "Ok return source", "Ok payload derives from %s" % leaf_s(b, lf))
    if not n_ok:
        ctx.bad("C06/D1", "Ok return", "no Ok return source found")
    # ---- D3 absolute time
    fx = ctx.fx
    adt = fx.adts.get("models::layout::metadata::LayoutMetadata")
    ty = None
    if adt:
        for fl in adt["variants"][0]["fields"]:
            if fl["name"] == "expires":
                ty = fl["ty"]
    ctx.inst("C06/D3", "field type", ty == "chrono::DateTime<chrono::Utc>", "LayoutMetadata.expires : %s" % ty)
    # construction sites of LayoutMetadata
    sites = shared.agg_sites(fx, "models::layout::metadata::LayoutMetadata")
    ok_sites = all(p in ("models::layout::metadata::LayoutMetadata::new",) or exp for (p, bb, exp, rv) in sites)
    ctx.inst("C06/D3", "construction sites", bool(sites) and ok_sites, "LayoutMetadata is constructed in: %s" % sorted({p for (p, _, _, _) in sites}))
    newf = fx.fn_opt("models::layout::metadata::LayoutMetadata::new")
    if newf:
        nb = body_of(fx, newf["key"])
        ctx.touch_fn(newf)
        lv = nb.trace({"l": 0, "p": []}, (fld("expires"),))
        ctx.inst("C06/D3", "LayoutMetadata::new stores its first argument as expires", bool(lv) and all(l.kind == "param" and l.data == 1 and not l.path for l in lv),
                 "expires <- {%s}" % ", ".join(leaf_s(nb, l) for l in lv))
    # wire path: <LayoutMetadata as Deserialize>::deserialize -> Layout::try_into -> LayoutMetadata::new(parse(..))
    tf = fx.fn_opt("models::layout::Layout::try_into")
    if tf is None:
        ctx.bad("C06/D3", "wire conversion", "models::layout::Layout::try_into not found")
    else:
        tb_ = region_body(fx, "models::layout::Layout::try_into", 4)
        ctx.touch_body(tb_)
        calls = tb_.calls_named("models::layout::metadata::LayoutMetadata::new")
        if len(calls) != 1:
            ctx.bad("C06/D3", "wire conversion", "expected one LayoutMetadata::new call in Layout::try_into, found %d" % len(calls))
        else:
            i, t = calls[0]
            lv = tb_.trace(t["args"][0])
            okc = bool(lv)
            chain = []
            for lf in lv:
                if not (lf.kind == "call" and callee_name(lf.data[1]) == "chrono::DateTime::with_timezone" and lf.path == (OK, F0)[:0] or
                        (lf.kind == "call" and callee_name(lf.data[1]) == "chrono::DateTime::with_timezone")):
                    okc = False
                    chain.append(leaf_s(tb_, lf))
                    continue
                wt = lf.data[1]
                src = tb_.trace(wt["args"][0])
                tz_ty = (wt.get("generics") or ["", ""])
                is_utc = any(g == "chrono::Utc" for g in tz_ty)
                src_ok = bool(src) and all(s.kind == "call" and callee_name(s.data[1]) == "chrono::DateTime::parse_from_rfc3339" and s.path == (OK, F0) for s in src)
                arg_ok = False
                if src_ok:
                    pr = src[0].data[1]
                    r = root_ids(tb_, pr["args"][0])
                    arg_ok = r == frozenset([("param", 1, (fld("expires"),))])
                chain.append("with_timezone::<%s>(parse_from_rfc3339(%s))" % (",".join(g for g in tz_ty if not g.startswith("'")), "self.expires" if arg_ok else "?"))
                okc = okc and is_utc and src_ok and arg_ok
            ctx.inst("C06/D3", "wire conversion chain", okc, "expires argument = %s" % "; ".join(chain), t["at"])
    df = [f for f in fx.doc["fns"] if f["path"].endswith("Deserialize<'de>>::deserialize") and f.get("self_ty") == "models::layout::metadata::LayoutMetadata"]
    if len(df) != 1:
        ctx.bad("C06/D3", "LayoutMetadata decoder", "expected one Deserialize impl for LayoutMetadata, found %d" % len(df))
    else:
        db = body_of(fx, df[0]["key"])
        ctx.touch_fn(df[0])
        lv = db.trace({"l": 0, "p": []}, (OK, F0))
        okd = bool(lv) and all(l.kind == "call" and callee_name(l.data[1]) == "models::layout::Layout::try_into" for l in lv)
        ctx.inst("C06/D3", "LayoutMetadata decoder goes through Layout::try_into", okd, "decoded value <- {%s}" % ", ".join(leaf_s(db, l) for l in lv))
    # ---- D4
    subl.check_delegation(ctx, P, "C15/D1")
