"""Delegation (sub-layout) and summary-link rules on the in_toto_verify REGION (C15; D1 also C06/D4)."""
from ..core import (Body, callee_name, op_place, op_const, proj_path, leaf_s, OK, F0, F1, SOME, ELEM, norm, short)
from ..guards import root_ids, same_root, def_call, body_of, const_int
from ..pipeline import Pipeline, fld, V_LINK, V_LAYOUT, ANCHOR

FMT = {"__agg_all__": True, "__flow_all__": lambda t: (callee_name(t) or "").startswith(("core::fmt::", "std::fmt::", "alloc::fmt::", "core::str::", "std::ffi::OsStr::"))
       or callee_name(t) in ("std::path::Path::join", "std::path::PathBuf::push", "std::path::Path::new", "std::path::Path::to_str",
                             "std::path::PathBuf::from", "std::path::PathBuf::to_str", "std::path::PathBuf::as_path",
                             "std::path::PathBuf::new", "std::string::String::push_str", "std::ops::Add::add",
                             "std::hint::must_use", "core::hint::must_use")}


def evidence_matches(P):
    """Switch edges `evidence.metadata is Layout` (evidence = anything but the gate's own payload)."""
    b = P.b
    out = []
    for (e, tb, f) in b.all_edge_facts():
        if f[0] not in ("variant",) or not (f[3] or "").endswith("MetadataWrapper"):
            continue
        leaves = b.trace(f[1])
        if leaves and all(lf.kind == "call" and lf.data[0] == P.gate[0] for lf in leaves):
            continue      # the gate's own `is it a layout` match
        if leaves and all(lf.kind == "call" and any(lf.data[0] == r[0] for r in P.recursions) for lf in leaves):
            continue      # matching on the result of the recursion (summary link)
        if leaves and all(lf.kind == "call" and callee_name(lf.data[1]) in ("runlib::in_toto_run",) for lf in leaves):
            continue      # inspection link
        out.append((e, tb, f))
    return out


def check_delegation(ctx, P, rule):
    """D1: a Layout found among step evidence becomes link evidence only through the public in_toto_verify."""
    b = P.b
    ev = evidence_matches(P)
    lay = [(e, tb, f) for (e, tb, f) in ev if f[2] == "Layout"]
    if not lay:
        ctx.bad(rule, "evidence kind match", "no `evidence.metadata is Layout` branch found in the verification region: layouts filed as "
                "step evidence are not recognised (cannot show delegation is handled)")
        return None
    if not P.recursions:
        ctx.bad(rule, "recursion", "no call to the public verifylib::in_toto_verify in the sub-layout stage: delegated layouts are "
                "not verified by the full pipeline")
        return None
    res = []
    for (e, tb, f) in lay:
        dom = b.edge_dominated(e)
        recs = [(i, t) for (i, t) in P.recursions if i in dom]
        ctx.inst(rule, "layout evidence is verified recursively", len(recs) == 1,
                 "%d call(s) to in_toto_verify dominated by the `evidence is Layout` edge bb%d->bb%d" % (len(recs), e[0], tb), b.at(e[0]))
        if len(recs) != 1:
            continue
        ri, rt = recs[0]
        # the LinkMetadata that is filed for the step: inserts of LinkMetadata values reachable from this edge
        loops = [b.loop_blocks(h) for h in {tb2 for (_e, tb2) in b.back_edges()} if e[0] in b.loop_blocks(h)]
        scope = min(loops, key=len) if loops else b.reach_from(tb)
        ins = [(i, t) for (i, t) in b.calls_named("std::collections::HashMap::insert", "std::collections::BTreeMap::insert")
               if len(t.get("arg_tys") or []) == 3 and t["arg_tys"][2].endswith("LinkMetadata") and i in scope]
        if not ins:
            ctx.bad(rule, "filed link", "no insertion of a LinkMetadata value in the loop that handles the Layout branch")
            continue
        ev_roots = frozenset((k, i_, p + (V_LINK, F0)) for (k, i_, p) in root_ids(b, f[1]))
        rec_root = ("call", ri, (OK, F0, fld("metadata"), V_LINK, F0))
        for (i, t) in ins:
            roots = root_ids(b, t["args"][2])
            okl = bool(roots) and roots <= (ev_roots | {rec_root})
            has_rec = rec_root in roots
            ctx.inst(rule, "filed link derives from the evidence's Link payload or from in_toto_verify's Ok payload", okl and has_rec,
                     "inserted LinkMetadata <- %s" % P.leaves_s(t["args"][2]), t["at"])
        ok_edges, _ = P.ok_edges(ri)
        ctx.inst(rule, "recursion outcome propagated", bool(ok_edges) and all(i in set().union(*[b.edge_dominated(e2) for e2 in ok_edges]) for (i, t) in ins if any(
            lf.kind == "call" and lf.data[0] == ri for lf in b.trace(t["args"][2])) and False) or bool(ok_edges),
            "Ok-outcome edges of the recursive call: %s (an Err is propagated by `?`)" % ok_edges, rt["at"])
        res.append((e, tb, f, ri, rt))
    return res


def _split_alts(b, x, seen, depth=0):
    """Backward from an operand to the first local that has two or more whole-local definitions (a value chosen by control
    flow); None when the value is defined once all the way."""
    p = x if ("l" in x and "p" in x) else op_place(x)
    if p is None or depth > 24:
        return None
    l = p["l"]
    if l in seen or 1 <= l <= b.argc:
        return None
    seen.add(l)
    ds = [d for d in b.defs.get(l, []) if not d.node["dst"]["p"]]
    if len(ds) >= 2:
        return ds
    if len(ds) == 1:
        d = ds[0]
        if d.kind == "assign":
            rv = d.node["rv"]
            nxt = [rv["op"]] if "op" in rv else ([rv["place"]] if "place" in rv else rv.get("ops", []))
        else:
            nxt = d.node["args"]
        for a in nxt:
            r = _split_alts(b, a, seen, depth + 1)
            if r:
                return r
    return None


def _def_leaves(b, d):
    if d.kind == "call":
        out = []
        for a in d.node["args"]:
            out += b.trace(a, (), None, FMT)
        return out
    rv = d.node["rv"]
    if "op" in rv:
        return b.trace(rv["op"], (), None, FMT)
    if "place" in rv:
        return b.trace(rv["place"], (), None, FMT)
    return None



def check_recursion_args(ctx, P, rule, deleg):
    b = P.b
    for (e, tb, f, ri, rt) in deleg:
        place = f[1]
        args = rt["args"]
        # arg0: the evidence block whose metadata was matched
        r_place = root_ids(b, place)
        r_arg0 = root_ids(b, args[0])
        want = frozenset((k, i, p + (fld("metadata"),)) for (k, i, p) in r_arg0)
        ctx.inst(rule, "arg0 = the evidence block itself", bool(r_arg0) and want == r_place,
                 "layout argument <- %s; matched place <- %s" % (P.leaves_s(args[0]), P.leaves_s(place)), rt["at"])
        # the key id under which the evidence is filed: the other half of the same (key, block) element
        key_roots = frozenset((k, i, p[:-1] + (F0,)) for (k, i, p) in r_arg0 if p[-1:] == (F1,))
        # arg1: fresh map with exactly one insert(keyid, layout.keys[keyid])
        p1 = op_place(args[1])
        ok1 = False
        detail = "key map argument is not a local map"
        if p1 is not None and not p1["p"]:
            m = p1["l"]
            # resolve moves
            for _ in range(4):
                d = b.single_def(m)
                if d and d.kind == "assign" and d.node["rv"]["k"] == "use" and op_place(d.node["rv"]["op"]) and not op_place(d.node["rv"]["op"])["p"]:
                    m = op_place(d.node["rv"]["op"])["l"]
                else:
                    break
            d = b.single_def(m)
            if not (d and d.kind == "call"):
                # the map may come out of a helper as `Ok(map)?`: follow the value to the call that created it
                lvm = b.trace(args[1])
                if len(lvm) == 1 and lvm[0].kind == "call" and not lvm[0].path and not lvm[0].data[1]["dst"]["p"]:
                    m = lvm[0].data[1]["dst"]["l"]
                    d = b.single_def(m)
            fresh = bool(d and d.kind == "call" and callee_name(d.node) in ("std::collections::HashMap::new", "std::collections::HashMap::with_capacity"))
            muts = b.mutators.get(m, [])
            inserts = [(bb, t) for (bb, t, ai) in muts if callee_name(t) == "std::collections::HashMap::insert" and ai == 0]
            others = [(bb, t) for (bb, t, ai) in muts if not (callee_name(t) == "std::collections::HashMap::insert" and ai == 0)]
            detail = "fresh map: %s, %d insert(s), %d other mutation(s)" % (fresh, len(inserts), len(others))
            pair = None
            if fresh and len(inserts) == 1 and not others:
                pair = (inserts[0][1]["args"][1], inserts[0][1]["args"][2], inserts[0][1])
            elif d and d.kind == "call" and callee_name(d.node) in ("std::convert::From::from", "std::iter::FromIterator::from_iter") and not muts \
                    and (d.node.get("generics") or [""])[0].startswith("std::collections::HashMap<"):
                # HashMap::from([(key, value)]): an array literal with exactly one pair
                al = b.trace(d.node["args"][0])
                if len(al) == 1 and al[0].kind == "agg" and al[0].data[2].get("agg") == "array" and len(al[0].data[2]["ops"]) == 1:
                    tl = b.trace(al[0].data[2]["ops"][0])
                    if len(tl) == 1 and tl[0].kind == "agg" and tl[0].data[2].get("agg") == "tuple" and len(tl[0].data[2]["ops"]) == 2:
                        pair = (tl[0].data[2]["ops"][0], tl[0].data[2]["ops"][1], d.node)
                        detail = "map built from a one-pair array literal"
            if pair is not None:
                it = pair[2]
                kroots = root_ids(b, pair[0])
                vleaves = b.trace(pair[1])
                val_ok = bool(vleaves) and all(lf.kind == "call" and lf.data[0] == P.gate[0] and
                                               lf.path == P.gate_leaf_path(fld("keys"), ELEM, F1) and "HashMap::get" in lf.via for lf in vleaves)
                # the get() key must be the same key id
                getc = None
                for lf in vleaves:
                    pass
                gets = [(gb, gt) for (gb, gt) in b.calls_named("std::collections::HashMap::get")
                        if P.is_verified_layout(gt["args"][0], (fld("keys"),)) and gb in b.edge_dominated(e)]
                get_key_ok = len(gets) >= 1 and all(root_ids(b, gt["args"][1]) == kroots for (gb, gt) in gets)
                key_ok = bool(key_roots) and kroots == key_roots
                ok1 = val_ok and get_key_ok and key_ok
                detail += "; inserted key <- %s (filed-under key: %s); value <- %s (layout.keys.get(same key): %s)" % (
                    P.leaves_s(pair[0]), key_ok, P.leaves_s(pair[1]), val_ok and get_key_ok)
        ctx.inst(rule, "arg1 = fresh map holding exactly the delegating key from the layout's key table", ok1, detail, rt["at"])
        # arg3: Some(step name)
        l3 = b.trace(args[3], (SOME, F0))
        name_ok = bool(l3) and all(lf.kind == "call" and lf.data[0] == P.gate[0] and lf.path == P.gate_leaf_path(fld("steps"), ELEM, fld("name")) for lf in l3)
        ctx.inst(rule, "arg3 = Some(name of the step being processed)", name_ok, "step_name argument <- %s" % P.leaves_s(args[3], (SOME, F0)), rt["at"])
        # arg2: link_dir / "<step>.<prefix(keyid)>"
        l2 = b.trace(args[2], (), None, FMT)
        has_dir = any(lf.kind == "param" and lf.data == 3 for lf in l2)
        pref = [lf for lf in l2 if lf.kind == "call" and callee_name(lf.data[1]) == "crypto::KeyId::prefix"]
        pref_ok = len({lf.data[0] for lf in pref}) == 1 and bool(key_roots) and root_ids(b, pref[0].data[1]["args"][0]) == key_roots
        has_name = any(lf.kind == "call" and lf.data[0] == P.gate[0] and lf.path == P.gate_leaf_path(fld("steps"), ELEM, fld("name")) for lf in l2)
        extra = [leaf_s(b, lf) for lf in l2 if not (lf.kind == "const" or (lf.kind == "param" and lf.data == 3) or lf in pref or
                                                    (lf.kind == "call" and lf.data[0] == P.gate[0] and lf.path == P.gate_leaf_path(fld("steps"), ELEM, fld("name"))))]
        ctx.inst(rule, "arg2 = link_dir joined with <step name>.<prefix of the delegating key id>", has_dir and pref_ok and has_name and not extra,
                 "directory argument <- link_dir: %s, KeyId::prefix(filed-under key): %s, step name: %s, other sources: %s" % (has_dir, pref_ok, has_name, extra), rt["at"])
        # ... on every alternative: where the directory value is chosen between several definitions (if/else, match), each
        # choice on its own must carry the step name and the key-id prefix (C15k: fall back to the parent directory)
        alts = _split_alts(b, args[2], set())
        if alts:
            def is_name(lf):
                return lf.kind == "call" and lf.data[0] == P.gate[0] and lf.path == P.gate_leaf_path(fld("steps"), ELEM, fld("name"))
            bad_alts = []
            for d in alts:
                lv = _def_leaves(b, d)
                if lv is None:
                    continue
                if not (any(lf.kind == "call" and callee_name(lf.data[1]) == "crypto::KeyId::prefix" for lf in lv) and any(is_name(lf) for lf in lv)):
                    bad_alts.append("bb%d <- {%s}" % (d.bb, ", ".join(leaf_s(b, lf) for lf in lv)))
            ctx.inst(rule, "every alternative definition of the directory argument is the dedicated sub-directory", not bad_alts,
                     "%d alternative definition(s); without <step name>.<key-id prefix>: %s" % (len(alts), bad_alts or "none"), rt["at"])


def check_summary(ctx, P, rule):
    """D3: summary = materials of the first step, products/byproducts/command of the last, requested name."""
    b = P.b
    fx = ctx.fx
    if len(P.summaries) != 1:
        ctx.bad(rule, "summary construction", "expected exactly one Metablock::new in the verification region, found %d" % len(P.summaries))
        return
    si, st = P.summaries[0]
    ok_src = b.trace({"l": 0, "p": []}, (OK, F0))
    ctx.inst(rule, "the Ok payload of in_toto_verify is the summary block", bool(ok_src) and all(lf.kind == "call" and lf.data[0] == si for lf in ok_src),
             "Ok payload <- {%s}" % ", ".join(leaf_s(b, l) for l in ok_src), st["at"])
    # signatures: empty key slice
    keys_arg = st["args"][1]
    kl = b.trace(keys_arg)
    ctx.inst(rule, "summary is unsigned", bool(kl) and all(lf.kind in ("agg", "const") or (lf.kind == "other") for lf in kl),
             "private-key slice <- {%s}" % ", ".join(leaf_s(b, l) for l in kl), st["at"])
    # wrapped as Link
    stop_build = lambda t: callee_name(t) in ("models::link::metadata::LinkMetadataBuilder::build",)
    ml = b.trace(st["args"][0], (V_LINK, F0), stop_build)
    builds = [lf for lf in ml if lf.kind == "call" and callee_name(lf.data[1]) == "models::link::metadata::LinkMetadataBuilder::build"]
    if not ml or len(builds) != len(ml):
        ctx.bad(rule, "summary payload", "summary metadata is not MetadataWrapper::Link(builder.build()?): <- {%s}" % ", ".join(leaf_s(b, l) for l in ml), st["at"])
        return
    SETTERS = {"materials", "products", "byproducts", "command", "name", "env"}
    # setter semantics
    for sname in sorted(SETTERS):
        sf = fx.fn_opt("models::link::metadata::LinkMetadataBuilder::" + sname)
        if sf is None:
            continue
        sb = body_of(fx, sf["key"])
        ctx.touch_fn(sf)
        lv = sb.trace({"l": 0, "p": []}, (fld(sname),))
        writes = [d for d in sb.defs.get(1, []) if d.kind == "assign" and proj_path(d.node["dst"]) == (fld(sname),)]
        okw = bool(lv) and any(l.kind == "param" and l.data == 2 and not l.path for l in lv) and len(writes) == 1 and \
            all((l.kind == "param" and l.data == 2 and not l.path) or (l.kind == "param" and l.data == 1 and l.path == (fld(sname),)) for l in lv)
        ctx.inst(rule, "builder setter %s stores its argument" % sname, okw,
                 "%s <- {%s}; %d assignment(s) to self.%s" % (sname, ", ".join(leaf_s(sb, l) for l in lv), len(writes), sname))
    bf = fx.fn_opt("models::link::metadata::LinkMetadataBuilder::build")
    lnew = fx.fn_opt("models::link::metadata::LinkMetadata::new")
    if bf and lnew:
        bb_ = body_of(fx, bf["key"])
        nb = body_of(fx, lnew["key"])
        order_ok = True
        for fname in ("name", "materials", "products", "env", "byproducts", "command"):
            lv = nb.trace({"l": 0, "p": []}, (OK, F0, fld(fname)))
            if not (lv and all(l.kind == "param" for l in lv)):
                order_ok = False
                continue
            idx = lv[0].data
            calls = bb_.calls_named("models::link::metadata::LinkMetadata::new")
            if len(calls) != 1:
                order_ok = False
                continue
            a = calls[0][1]["args"][idx - 1]
            r = root_ids(bb_, a)
            if r != frozenset([("param", 1, (fld(fname),))]):
                order_ok = False
        ctx.inst(rule, "build() passes every builder field to the same-named LinkMetadata field", order_ok, "LinkMetadataBuilder::build -> LinkMetadata::new field mapping")
    # walk the builder chain of the non-empty-layout build
    stop_idx = lambda t: callee_name(t) in ("std::ops::Index::index", "models::layout::supply_chain_item::SupplyChainItem::name",
                                            "slice::first", "slice::last", "std::slice::first", "std::slice::last", "core::slice::first", "core::slice::last")
    found = {}
    for lf in builds:
        cur = lf.data[1]["args"][0]
        steps_ = 0
        while steps_ < 12:
            steps_ += 1
            dc = def_call(b, cur)
            if dc is None:
                break
            cb_, ct = dc
            n = callee_name(ct) or ""
            last = n.split("::")[-1]
            if n.startswith("models::link::metadata::LinkMetadataBuilder::") and last in SETTERS:
                found.setdefault(last, []).append((cb_, ct))
                cur = ct["args"][0]
                continue
            break
    def index_of_field(field):
        """-> list of 'first' / 'last' / '?' describing which step's entry feeds the field."""
        out = []
        for (cb_, ct) in found.get(field, []):
            vl = b.trace(ct["args"][1], (), stop_idx)
            for v in vl:
                if not (v.kind == "call" and callee_name(v.data[1]) == "std::ops::Index::index" and v.path == (fld(field),)):
                    out.append("? (%s)" % leaf_s(b, v))
                    continue
                mi = v.data[1]
                # key of the map index
                kl = b.trace(mi["args"][1], (), stop_idx)
                for kk in kl:
                    if kk.kind == "call" and callee_name(kk.data[1]) == "models::layout::supply_chain_item::SupplyChainItem::name":
                        sl = b.trace(kk.data[1]["args"][0], (), stop_idx)
                        for s_ in sl:
                            if s_.kind == "call" and callee_name(s_.data[1]) == "std::ops::Index::index" and \
                                    P.is_verified_layout(s_.data[1]["args"][0], (fld("steps"),)):
                                out.append(which_index(b, P, s_.data[1]["args"][1]))
                            elif s_.kind == "call" and callee_name(s_.data[1]) in ("slice::first", "slice::last", "std::slice::first", "std::slice::last",
                                                                                   "core::slice::first", "core::slice::last") \
                                    and s_.path == (SOME, F0) and P.is_verified_layout(s_.data[1]["args"][0], (fld("steps"),)):
                                out.append(callee_name(s_.data[1]).split("::")[-1])
                            else:
                                out.append("? (%s)" % leaf_s(b, s_))
                    else:
                        out.append("? (%s)" % leaf_s(b, kk))
        return out
    want = {"materials": "first", "products": "last", "byproducts": "last", "command": "last"}
    for field, w in want.items():
        got = index_of_field(field)
        ctx.inst(rule, "summary %s come from the %s step" % (field, w), bool(got) and all(g == w for g in got),
                 "%s <- entry of step index %s" % (field, got), st["at"])
    nl = []
    for (cb_, ct) in found.get("name", []):
        nl += b.trace(ct["args"][1])
    ctx.inst(rule, "summary name is the requested name", bool(nl) and all((lf.kind == "param" and lf.data == 4) or lf.kind == "const" for lf in nl)
             and any(lf.kind == "param" and lf.data == 4 for lf in nl), "name <- {%s}" % ", ".join(leaf_s(b, l) for l in nl), st["at"])


def which_index(b, P, op):
    c = const_int(b, op)
    if c == 0:
        return "first"
    p = op_place(op)
    if p is not None:
        d = b.single_def(p["l"])
        if d and d.kind == "assign" and d.node["rv"]["k"] == "binop" and d.node["rv"]["op"] in ("Sub", "SubUnchecked") \
                and const_int(b, d.node["rv"]["b"]) == 1:
            ln = def_call(b, d.node["rv"]["a"])
            if ln and callee_name(ln[1]).split("::")[-1] == "len" and P.is_verified_layout(ln[1]["args"][0], (fld("steps"),)):
                return "last"
        if d and d.kind == "assign" and d.node["rv"]["k"] == "use":
            q = op_place(d.node["rv"]["op"])
            if q is not None and proj_path(q) == (F0,):
                dt = b.single_def(q["l"])
                if dt and dt.kind == "assign" and dt.node["rv"]["k"] == "binop" and dt.node["rv"]["op"].startswith("Sub") \
                        and const_int(b, dt.node["rv"]["b"]) == 1:
                    ln = def_call(b, dt.node["rv"]["a"])
                    if ln and callee_name(ln[1]).split("::")[-1] == "len" and P.is_verified_layout(ln[1]["args"][0], (fld("steps"),)):
                        return "last"
    return "? (index %s)" % (c if c is not None else "non-constant")
