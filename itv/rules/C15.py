"""C15 - delegated sub-layouts are verified as strictly as the top-level layout."""
from ..pipeline import Pipeline
from . import subl

EXPLANATION = (
    "On the REGION super-graph of in_toto_verify: where step evidence turns out to be a Layout, the LinkMetadata "
    "filed for the step must derive from the Ok payload of a call to the *public* in_toto_verify (the full pipeline, "
    "including signature gate and expiry), with arguments: the evidence block itself, a fresh key map holding "
    "exactly layout.keys[key id it was filed under], link_dir joined with '<step>.<prefix(key id)>', and Some(step "
    "name). The summary returned by any successful verification is Metablock::new(Link(builder)) with materials "
    "from steps[0], products/byproducts/command from steps[len-1] and the requested name, unsigned.")
DECIDED = ["D1 delegation only through the public pipeline", "D2 arguments of the recursive call", "D3 summary link composition"]
UNDECIDED = ["std path joining / formatting contracts"]
TRUSTED = ["std::path::Path::join and format! concatenate their inputs"]
ASSUMPTIONS = []
FLOORS = {"C15/D1": 3, "C15/D2": 4, "C15/D3": 10}


def run(ctx):
    P = Pipeline(ctx)
    if not P.ok or P.gate is None:
        ctx.bad("C15/D1", "anchor", "in_toto_verify / signature gate not found (failing closed)")
        return
    deleg = subl.check_delegation(ctx, P, "C15/D1")
    if deleg:
        subl.check_recursion_args(ctx, P, "C15/D2", deleg)
    subl.check_summary(ctx, P, "C15/D3")
