"""C02 - links count for a step only if signed by a functionary authorized for it."""
from ..core import (Body, callee_name, op_place, op_const, proj_path, as_cmp, as_pred, leaf_s, OK, F0, F1, SOME, ELEM, SWAP, norm)
from ..guards import root_ids, same_root, const_int, body_of, def_call
from ..pipeline import Pipeline, Stages, fld, V_LINK, V_LAYOUT
from . import shared, subl, keys

EXPLANATION = (
    "On the path-sensitive REGION super-graph of in_toto_verify. The verified-link set of a step is the map that "
    "receives Metablock values inside the signature-threshold stage. D1: that insertion is edge-dominated by a "
    "membership fact between the step's own pub_keys and the key id the link is filed under. D2: the key handed to "
    "the per-link Metablock::verify is layout.keys.get(that key id). D3: the insertion is dominated by the Ok outcome "
    "of that verify call (threshold constant >= 1), and it inserts the verified block under that key id. D4: the step "
    "passes only over an edge stating len(verified set) >= step.threshold. D5: the representative link is taken under "
    "Some(..) with Err on None. D6: a loaded block enters the candidate map only when the key-id prefix of one of its "
    "own signatures equals the short id of the file name, keyed by that signature's key id. D7: the map handed to the "
    "sub-layout / agreement / representative stages is the verified map (same allocation), never the candidate map. "
    "The core of Metablock::verify (C04 D1-D5) is re-checked because it is what D3 relies on.")
DECIDED = ["D1 authorisation by the step's own key list", "D2 key table lookup by the filing key id", "D3 valid signature before counting",
           "D4 threshold on the verified set", "D5 at least one link", "D6 file name / signature key-id prefix agreement",
           "D7 only verified evidence flows on", "D8 the layout key table maps an id only to the key with that intrinsic id (parse-time filter, builder)"]
UNDECIDED = ["parsing of file names for adversarial step names", "glob matching"]
TRUSTED = ["ring signature verification", "glob returns only names matching <step>.????????.link"]
ASSUMPTIONS = []
FLOORS = {"C02/D1": 1, "C02/D2": 1, "C02/D3": 3, "C02/D4": 1, "C02/D5": 1, "C02/D6": 2, "C02/D7": 1, "C02/D8": 2, "C04/D4": 3}

MEMBER_CALLS = {"core::slice::contains", "std::vec::Vec::contains", "std::collections::HashSet::contains",
                "std::collections::BTreeSet::contains", "std::collections::HashMap::contains_key",
                "std::collections::BTreeMap::contains_key", "std::collections::VecDeque::contains"}


def allocs(b, op, path=()):
    return {lf.data[0] for lf in b.trace(op, path) if lf.kind == "call" and (callee_name(lf.data[1]) or "").split("::")[-1] in ("new", "with_capacity", "default")}


def run(ctx):
    P = Pipeline(ctx)
    if not P.ok or P.gate is None:
        ctx.bad("C02/D1", "anchor", "in_toto_verify / signature gate not found (failing closed)")
        return
    b = P.b
    S = Stages(P)
    if S.thresh is None or not P.link_verifies:
        ctx.bad("C02/D3", "signature-threshold stage", "no per-link Metablock::verify inside a loop over the layout's steps (cannot show links are checked)")
        return
    inserts = b.calls_named("std::collections::HashMap::insert", "std::collections::BTreeMap::insert")
    g_ins = [(i, t) for (i, t) in inserts if i in S.thresh and len(t["args"]) == 3 and t["arg_tys"][2].endswith("metadata::Metablock")]
    if len(g_ins) != 1:
        ctx.bad("C02/D3", "verified-link set", "expected exactly one insertion of a Metablock into the verified set inside the threshold stage, found %d" % len(g_ins))
        return
    gi, gt = g_ins[0]
    step_path = P.gate_leaf_path(fld("steps"), ELEM)
    signer_roots = root_ids(b, gt["args"][1])
    block_roots = root_ids(b, gt["args"][2])
    # the filing key and the block are the two halves of the same candidate element
    pair_ok = bool(signer_roots) and {(k, i, p[:-1]) for (k, i, p) in signer_roots if p[-1:] == (F0,)} == \
        {(k, i, p[:-1]) for (k, i, p) in block_roots if p[-1:] == (F1,)} and all(p[-1:] == (F0,) for (_, _, p) in signer_roots)
    ctx.inst("C02/D3", "verified set is keyed by the key id the block is filed under", pair_ok,
             "inserted key <- %s; inserted block <- %s" % (P.leaves_s(gt["args"][1]), P.leaves_s(gt["args"][2])), gt["at"])
    facts = b.facts_dominating(gi)
    # ---- D1
    member = []
    for (e, f) in facts:
        pr = as_pred(f)
        if not pr:
            continue
        n, t, truth = pr
        if n in MEMBER_CALLS and truth is True and len(t["args"]) >= 2:
            coll_ok = P.is_verified_layout(t["args"][0], (fld("steps"), ELEM, fld("pub_keys")))
            key_ok = root_ids(b, t["args"][1]) == signer_roots
            if coll_ok and key_ok:
                member.append(e)
        if n == "std::iter::Iterator::any" and truth is True:
            src = b.trace(t["args"][0])
            coll_ok = bool(src) and all(lf.kind == "call" and lf.data[0] == P.gate[0] and lf.path[:len(step_path) + 1] == step_path + (fld("pub_keys"),) for lf in src)
            clo = None
            p_ = op_place(t["args"][1])
            d = b.single_def(p_["l"]) if p_ else None
            if coll_ok and d and d.kind == "assign" and d.node["rv"].get("agg") == "closure":
                ups = d.node["rv"]["ops"]
                if any(root_ids(b, u) == signer_roots for u in ups):
                    cb = body_of(ctx.fx, d.node["rv"]["closure_key"])
                    eqs = [1 for (_e, _tb, f2) in cb.all_edge_facts() if as_cmp(f2)] or [1 for bb_, t2 in cb.calls() if (callee_name(t2) or "").endswith("PartialEq::eq")]
                    if eqs:
                        member.append(e)
    # table form: the step's authorised keys resolved once into a map keyed by the elements of step.pub_keys; a link counts only if
    # `table.get(<key id it is filed under>)` is Some
    step_tables = []
    GETS = ("std::collections::HashMap::get", "std::collections::BTreeMap::get")
    for (e, f) in facts:
        if f[0] == "variant" and f[2] == "Some":
            lvt = b.trace(f[1], (), lambda tt: callee_name(tt) in GETS)
            for l in lvt:
                if l.kind == "call" and callee_name(l.data[1]) in GETS and not l.path and root_ids(b, l.data[1]["args"][1]) == signer_roots \
                        and not P.is_verified_layout(l.data[1]["args"][0], (fld("keys"),)) \
                        and P.is_verified_layout(l.data[1]["args"][0], (fld("steps"), ELEM, fld("pub_keys"), ELEM), (ELEM, F0)):
                    member.append(e)
                    step_tables.append((l.data[0], l.data[1], frozenset(root_ids(b, l.data[1]["args"][0]))))
    ctx.inst("C02/D1", "link counted only if its signer is in the step's pub_keys", bool(member),
             ("membership fact(s) on edge(s) %s dominate the insertion" % member) if member else
             "no dominating fact `step.pub_keys contains <key id the link is filed under>` before the link is added to the verified set: "
             "any key of the layout's key table counts for any step", gt["at"])
    # ---- D2 / D3
    vs = [(i, t) for (i, t) in P.link_verifies if i in S.thresh]
    if len(vs) != 1:
        ctx.bad("C02/D3", "per-link signature check", "expected one Metablock::verify call in the threshold stage, found %d" % len(vs))
        return
    vi, vt = vs[0]
    same_block = root_ids(b, vt["args"][0]) == block_roots
    ctx.inst("C02/D3", "the block that is verified is the block that is counted", same_block,
             "verify receiver <- %s" % P.leaves_s(vt["args"][0]), vt["at"])
    thr = const_int(b, vt["args"][1])
    ctx.inst("C02/D3", "per-link threshold is a constant >= 1", thr is not None and thr >= 1, "threshold argument = %s" % thr, vt["at"])
    dominated = False
    how = ""
    ok_e, _ = P.ok_edges(vi)
    if any(gi in b.edge_dominated(e) for e in ok_e):
        dominated, how = True, "Ok/Continue edge %s" % ok_e
    for (e, f) in facts:
        pr = as_pred(f)
        if pr and pr[0] == "std::result::Result::is_ok" and pr[2] is True:
            dc = def_call(b, pr[1]["args"][0])
            if dc and dc[0] == vi:
                dominated, how = True, "is_ok()==true on edge %s" % (e,)
        if pr and pr[0] == "std::result::Result::is_err" and pr[2] is False:
            dc = def_call(b, pr[1]["args"][0])
            if dc and dc[0] == vi:
                dominated, how = True, "is_err()==false on edge %s" % (e,)
    ctx.inst("C02/D3", "counted only after a valid signature", dominated,
             ("insertion dominated by " + how) if dominated else "insertion into the verified set is NOT dominated by the Ok outcome of Metablock::verify", gt["at"])
    kl = b.trace(vt["args"][2], (), None, {"__agg_all__": True})
    want = P.gate_leaf_path(fld("keys"), ELEM, F1)
    key_from_table = bool(kl) and all(lf.kind == "call" and lf.data[0] == P.gate[0] and lf.path == want and "HashMap::get" in lf.via for lf in kl)
    gets = [(i, t) for (i, t) in b.calls_named("std::collections::HashMap::get", "std::collections::BTreeMap::get")
            if i in S.thresh and P.is_verified_layout(t["args"][0], (fld("keys"),))]
    def _via_step_table(gbb, gt_):
        """layout.keys.get(k) for an element k of step.pub_keys whose result is filed under k in the step table that is then
        consulted with the signer's id: the key found for the signer is layout.keys[signer]"""
        for (_tb, _tt, troot) in step_tables:
            for (ii, it) in inserts:
                if len(it["args"]) == 3 and frozenset(root_ids(b, it["args"][0])) == troot and root_ids(b, it["args"][1]) == root_ids(b, gt_["args"][1]):
                    vl_ = b.trace(it["args"][2], (), lambda tt: callee_name(tt) in GETS)
                    if vl_ and all(x.kind == "call" and x.data[0] == gbb and x.path[:2] == (SOME, F0) for x in vl_):
                        return True
        return False
    lookup_ok = bool(gets) and all(root_ids(b, t["args"][1]) == signer_roots or _via_step_table(i, t) for (i, t) in gets)
    ctx.inst("C02/D2", "verifying key = layout.keys[key id the link is filed under]", key_from_table and lookup_ok,
             "keys argument <- %s; lookup key <- %s" % (P.leaves_s(vt["args"][2]), [P.leaves_s(t["args"][1]) for (i, t) in gets]), vt["at"])
    # ---- D4
    v_alloc = allocs(b, gt["args"][0])
    outer = [(i, t) for (i, t) in inserts if i in S.thresh and len(t["args"]) == 3 and allocs(b, t["args"][2]) == v_alloc and v_alloc]
    if len(outer) != 1:
        ctx.bad("C02/D4", "filing of the verified set", "the per-step verified map is not filed exactly once for the step (found %d)" % len(outer))
    else:
        oi, ot = outer[0]
        thr_path = P.gate_leaf_path(fld("steps"), ELEM, fld("threshold"))
        okf = []
        for (e, f) in b.facts_dominating(oi):
            c = as_cmp(f)
            if not c:
                continue
            for (u, v, o) in ((c[1], c[2], c[0]), (c[2], c[1], SWAP[c[0]])):
                ul = b.trace(u)
                vl = b.trace(v)
                is_len = bool(ul) and all(lf.kind == "call" and callee_name(lf.data[1]) == "std::collections::HashMap::len"
                                          and allocs(b, lf.data[1]["args"][0]) == v_alloc for lf in ul)
                is_thr = bool(vl) and all(lf.kind == "call" and lf.data[0] == P.gate[0] and lf.path == thr_path for lf in vl)
                if is_len and is_thr and o == "Ge":
                    okf.append(e)
                elif is_len and is_thr:
                    ctx.bad("C02/D4", "threshold comparison orientation", "verified count %s threshold on the passing edge (expected >=)" % o, b.at(e[0]))
        ctx.inst("C02/D4", "step passes only if len(verified set) >= step.threshold", bool(okf),
                 ("edge(s) %s stating len(verified) >= threshold dominate the filing of the step's verified set" % okf) if okf else
                 "no dominating comparison between the size of the *verified* set and the step's threshold", ot["at"])
        # ---- D7 container identity
        outer_alloc = allocs(b, ot["args"][0])
        ev = subl.evidence_matches(P)
        bad7 = []
        n7 = 0
        is_alloc = lambda tt: (callee_name(tt) or "").endswith(("HashMap::new", "HashMap::with_capacity", "BTreeMap::new"))
        for (e, tb, f) in ev:
            for lf in b.trace(f[1], (), is_alloc):          # container identity: stop at the allocation, do not look at its content
                n7 += 1
                if not (lf.kind == "call" and lf.data[0] in outer_alloc):
                    bad7.append(leaf_s(b, lf))
        # maps read by the agreement stage and by the representative selection
        for (i, t) in b.calls_named("std::collections::HashMap::get", "std::collections::HashMap::iter", "std::collections::HashMap::values"):
            ty = (t.get("arg_tys") or [""])[0]
            if "HashMap<std::string::String, std::collections::HashMap<crypto::KeyId, models::link::metadata::LinkMetadata>>" in ty:
                for lf in b.trace(t["args"][0], (), is_alloc):
                    n7 += 1
                    # the LinkMetadata map is built by the sub-layout stage from the verified map
                    if not (lf.kind == "call" and (callee_name(lf.data[1]) or "").endswith("HashMap::new")):
                        bad7.append(leaf_s(b, lf))
        ctx.inst("C02/D7", "later stages consume the verified map, not the candidate map", n7 > 0 and not bad7 and bool(outer_alloc),
                 "evidence examined by the sub-layout stage derives from the map allocated at bb%s (the map that receives the per-step verified sets); offending sources: %s" % (
                     sorted(outer_alloc), bad7[:3]))
    # ---- D5 representative: at least one link
    reps = []
    for f in ctx.fx.doc["fns"]:
        if not f["path"].startswith("verifylib::"):
            continue
        for bi, blk in enumerate(f["blocks"]):
            t = blk["term"]
            if t and t["k"] == "call" and not blk["cleanup"] and callee_name(t) == "std::collections::HashMap::insert" \
                    and (t.get("arg_tys") or ["", "", ""])[0].endswith("HashMap<std::string::String, models::link::metadata::LinkMetadata>") \
                    and "run_all_inspections" not in f["path"]:
                reps.append((f, bi, t))
    reg_reps = []
    if not reps:
        # the map may be built by `.map(..).collect::<Result<HashMap<..>>>()`: look at the regions (collect desugared into insertions)
        for f in ctx.fx.doc["fns"]:
            if not f["path"].startswith("verifylib::") or f["kind"] not in ("Fn", "AssocFn") or f.get("exp") or "run_all_inspections" in f["path"]:
                continue
            if "HashMap<std::string::String, models::link::metadata::LinkMetadata>" not in f["locals"][0]["ty"]:
                continue
            rb0 = ctx.region(None, policy="private", key=f["key"], ps=True)
            for (bi, t) in rb0.calls_named("std::collections::HashMap::insert"):
                if len(t["args"]) == 3 and "LinkMetadata" in " ".join(t.get("arg_tys") or []) and "KeyId" not in (t.get("arg_tys") or ["", ""])[1]:
                    reg_reps.append((f, bi, t, rb0))
    if not reps and not reg_reps:
        ctx.bad("C02/D5", "representative link", "no construction of the step -> link map found")
    for (f, bi, t, rb) in reg_reps:
        lv = rb.trace(t["args"][2])
        okr = bool(lv) and all(("Option::ok_or_else" in lf.via or "Option::ok_or" in lf.via) and "Try::branch" in lf.via for lf in lv)
        if not okr:
            okr = any(fc[0] == "variant" and fc[2] == "Some" for (e, fc) in rb.facts_dominating(bi))
        ctx.inst("C02/D5", "representative exists or verification fails", okr,
                 "representative <- {%s}" % ", ".join(leaf_s(rb, l) for l in lv), t["at"])
    for (f, bi, t) in reps:
        rb = body_of(ctx.fx, f["key"])
        ctx.touch_fn(f)
        lv = rb.trace(t["args"][2])
        okr = bool(lv) and all(("Option::ok_or_else" in lf.via or "Option::ok_or" in lf.via) and "Try::branch" in lf.via for lf in lv)
        if not okr:
            okr = any(fc[0] == "variant" and fc[2] == "Some" for (e, fc) in rb.facts_dominating(bi))
        ctx.inst("C02/D5", "representative exists or verification fails", okr,
                 "representative <- {%s}" % ", ".join(leaf_s(rb, l) for l in lv), t["at"])
    # ---- D6 file name <-> signature
    c_ins = [(i, t) for (i, t) in inserts if S.load and i in S.load and len(t["args"]) == 3 and t["arg_tys"][2].endswith("metadata::Metablock")]
    if len(c_ins) != 1:
        ctx.bad("C02/D6", "candidate filing", "expected exactly one insertion of a loaded block into the candidate map, found %d" % len(c_ins))
    else:
        ci, ct = c_ins[0]
        kl = b.trace(ct["args"][1])
        key_is_sig = bool(kl) and all(lf.kind == "call" and callee_name(lf.data[1]) == "crypto::Signature::key_id" for lf in kl)
        sig_roots = set()
        for lf in kl:
            if lf.kind == "call":
                sig_roots |= set(root_ids(b, lf.data[1]["args"][0]))
        blk_roots = root_ids(b, ct["args"][2])
        sig_of_block = bool(sig_roots) and {(k, i, p[:-2]) for (k, i, p) in sig_roots if p[-2:] == (fld("signatures"), ELEM)} == set(blk_roots) \
            and all(p[-2:] == (fld("signatures"), ELEM) for (_, _, p) in sig_roots)
        loaded = bool(blk_roots) and all(k == "call" for (k, i, p) in blk_roots)
        ctx.inst("C02/D6", "candidate is keyed by the key id of one of its own signatures", key_is_sig and sig_of_block and loaded,
                 "candidate key <- %s; candidate block <- %s" % (P.leaves_s(ct["args"][1]), P.leaves_s(ct["args"][2])), ct["at"])
        eq = []
        for (e, f) in b.facts_dominating(ci):
            c = as_cmp(f)
            if not c or c[0] != "Eq":
                continue
            for (u, v) in ((c[1], c[2]), (c[2], c[1])):
                ul = b.trace(u)
                is_prefix = bool(ul) and all(lf.kind == "call" and callee_name(lf.data[1]) == "crypto::KeyId::prefix" for lf in ul)
                if not is_prefix:
                    continue
                pk = set()
                for lf in ul:
                    for l2 in b.trace(lf.data[1]["args"][0]):
                        if l2.kind == "call" and callee_name(l2.data[1]) == "crypto::Signature::key_id":
                            pk |= set(root_ids(b, l2.data[1]["args"][0]))
                        else:
                            pk.add(("?",))
                vl = b.trace(v, (), None, subl.FMT)
                from_name = any(lf.kind == "call" and callee_name(lf.data[1]) in ("std::path::Path::file_name", "std::path::Path::file_stem") for lf in vl) or \
                    any("file_name" in x or "file_stem" in x for lf in vl for x in lf.via)
                if pk == sig_roots and from_name:
                    eq.append(e)
        ctx.inst("C02/D6", "candidate filed only if prefix(signature key id) == short id of the file name", bool(eq),
                 ("dominating equality on edge(s) %s" % eq) if eq else "no dominating `KeyId::prefix(sig.key_id()) == <id parsed from the file name>` fact", ct["at"])
    # ---- D8 the key table the lookups use maps an id only to the key with that intrinsic id
    keys.check_key_table_filter(ctx, "C02/D8")
    shared.check_threshold_core(ctx, prefix="C04")
