"""C17 - decoding does not depend on how the JSON reaches the parser."""
import re
from ..core import norm, callee_name

EXPLANATION = (
    "Static rule over the type-checked program: a document decodes identically from a string, a slice, "
    "a reader or a JSON tree iff no local decoder asks serde for *borrowed* data (borrowed strings only "
    "exist for in-memory, escape-free input). Every call made by local code into serde's decoding traits "
    "is enumerated with its resolved generic arguments; a borrowed str/bytes/Path request, a wire type with a "
    "reference field, or a visitor that only implements the borrowed callbacks is a violation. The public "
    "channel helpers must all defer to the same `T: Deserialize` implementation. D4: `SeqAccess/MapAccess::size_hint` is the one "
    "capability that differs between JSON front ends (none from text, exact from a tree or from serde's buffered content); a forward "
    "flow of every such result in local code must end in capacity reservations, never in a comparison, a branch or another call.")
DECIDED = ["D1 no borrowed decoding request in local Deserialize/Visitor code",
           "D1b no reference-typed field in a type that implements Deserialize",
           "D2 no visitor with visit_borrowed_* but without visit_*",
           "D3 public channel helpers are thin wrappers over serde_json::{from_reader,from_slice,from_value,from_str} for the caller's T",
           "D4 a size hint (absent from text parsers, exact from trees and buffered content) reaches capacity reservations only"]
UNDECIDED = ["serde_json's own equivalence of from_str/from_slice/from_reader/from_value for owned types (dependency contract)"]
TRUSTED = ["serde / serde_json: owned types decode identically through every Deserializer front end"]
ASSUMPTIONS = ["serde_json hands out borrowed strings only for escape-free in-memory input (documented behaviour)"]
FLOORS = {"C17/D1": 60, "C17/D2": 20, "C17/D3": 3, "C17/D1b": 20, "C17/D4": 1}

DECODE_TRAITS = {"serde::Deserialize", "serde::de::SeqAccess", "serde::de::MapAccess", "serde::de::EnumAccess",
                 "serde::de::VariantAccess", "serde::de::DeserializeSeed", "serde::de::DeserializeOwned"}
BORROWED = re.compile(r"&('\w+ )?(mut )?(str\b|\[u8\]|std::path::Path\b|\[u8; )")


def _clean(s):
    return re.sub(r"[A-Za-z0-9_:#]*::_serde::", "serde::", s)


def _value_is_parser_result(ctx, f, parsers):
    """In the REGION of the helper (module-private callees inlined) the returned Ok payload is exactly the Ok payload of the
    serde_json entry point for the caller's T."""
    from ..core import OK, F0
    b = ctx.region(None, policy="private", key=f["key"])
    lv = b.trace({"l": 0, "p": []}, (OK, F0))
    return bool(lv) and all(l.kind == "call" and callee_name(l.data[1]) in parsers and l.path == (OK, F0) and "T" in l.data[1].get("generics", [])
                            for l in lv)


def run(ctx):
    fx = ctx.fx
    # ---- D1: every decode request made by local code
    for f in fx.doc["fns"]:
        seen_here = False
        for bi, b in enumerate(f["blocks"]):
            t = b["term"]
            if not t or t["k"] != "call" or b["cleanup"]:
                continue
            tr = norm(t.get("trait"))
            if tr not in DECODE_TRAITS:
                continue
            seen_here = True
            gens = [g for g in t.get("generics", []) if not g.startswith("'")]
            bad = [g for g in gens if BORROWED.search(g)]
            name = callee_name(t)
            key = "%s | %s<%s>" % (_clean(f["path"]), name.split("::")[-1] if name else "?", ", ".join(gens))
            if bad:
                ctx.bad("C17/D1", key, "decoder requests borrowed data %s: only satisfiable from escape-free in-memory text, "
                        "fails for readers / JSON trees / escaped spellings" % bad, t["at"])
            else:
                ctx.ok("C17/D1", key, "owned decode request", t["at"])
        if seen_here:
            ctx.touch_fn(f)
    # ---- D1b: wire types have no reference fields
    de_types = set()
    for im in fx.impls:
        if norm(im.get("trait")) == "serde::Deserialize" and im.get("self_adt"):
            de_types.add(im["self_adt"])
    for a in sorted(de_types):
        adt = fx.adts.get(a)
        if not adt:
            continue
        refs = [(v["name"], fl["name"], fl["ty"]) for v in adt["variants"] for fl in v["fields"]
                if fl["ty"].startswith("&") or BORROWED.search(fl["ty"]) or "std::borrow::Cow<" in fl["ty"]]
        if refs:
            ctx.bad("C17/D1b", a, "wire type has borrowed field(s) %s" % refs, adt["at"])
        else:
            ctx.ok("C17/D1b", a, "all fields owned", adt["at"])
    # ---- D2: visitors
    for im in fx.impls:
        if norm(im.get("trait")) != "serde::de::Visitor":
            continue
        names = {m["name"] for m in im["methods"]}
        key = im["self_ty"] + " @" + im["key"]
        probs = []
        if "visit_borrowed_str" in names and "visit_str" not in names:
            probs.append("visit_borrowed_str without visit_str")
        if "visit_borrowed_bytes" in names and "visit_bytes" not in names:
            probs.append("visit_borrowed_bytes without visit_bytes")
        if probs:
            ctx.bad("C17/D2", key, "; ".join(probs), im["at"])
        else:
            ctx.ok("C17/D2", key, "visitor callbacks %s" % sorted(names), im["at"])
    # ---- D3: channel helpers
    want = {"from_reader": {"serde_json::from_reader"}, "from_slice": {"serde_json::from_slice"},
            "deserialize": {"serde_json::from_value"}}
    for im in fx.impls:
        if not (im.get("trait") or "").endswith("DataInterchange"):
            continue
        for m in im["methods"]:
            if m["name"] not in want:
                continue
            f = fx.fns.get(m["key"])
            key = "%s::%s" % (im["self_ty"], m["name"])
            if not f:
                ctx.bad("C17/D3", key, "no body")
                continue
            ctx.touch_fn(f)
            sj = [(bi, b["term"]) for bi, b in enumerate(f["blocks"]) if b["term"] and b["term"]["k"] == "call"
                  and not b["cleanup"] and (callee_name(b["term"]) or "").startswith("serde_json::")]
            local_calls = [b["term"] for b in f["blocks"] if b["term"] and b["term"]["k"] == "call" and not b["cleanup"]
                           and b["term"].get("callee_crate") == "in_toto"]
            names = {callee_name(t) for _, t in sj}
            gens_ok = all("T" in t.get("generics", []) for _, t in sj)
            deleg = [t for t in local_calls if (t.get("trait") or "").endswith("DataInterchange")
                     and (callee_name(t) or "").endswith("::" + m["name"]) and "T" in t.get("generics", [])]
            if names == want[m["name"]] and gens_ok and not local_calls:
                ctx.ok("C17/D3", key, "defers to %s::<T> only" % sorted(names), f["at"])
            elif not names and len(deleg) == 1 and len(local_calls) == 1:
                ctx.ok("C17/D3", key, "delegates to %s (checked separately)" % deleg[0].get("resolved_full", deleg[0]["callee"]), f["at"])
            elif names == want[m["name"]] and gens_ok and _value_is_parser_result(ctx, f, want[m["name"]]):
                ctx.ok("C17/D3", key, "defers to %s::<T>: the Ok payload returned is the parser's Ok payload, untouched (private helpers "
                       "inlined: %s)" % (sorted(names), sorted({callee_name(t) for t in local_calls})), f["at"])
            else:
                ctx.bad("C17/D3", key, "channel helper is not a thin wrapper: serde_json calls %s, local calls %s" % (
                    sorted(names), [callee_name(t) for t in local_calls]), f["at"])
    # ---- D4: channel capabilities
    check_size_hints(ctx, "C17/D4")


# ---- D4: channel capabilities ------------------------------------------------------------------------------------------
CAPACITY_SINKS = {"std::vec::Vec::with_capacity", "std::vec::Vec::reserve", "std::vec::Vec::reserve_exact", "std::string::String::with_capacity",
                  "std::collections::HashMap::with_capacity", "std::collections::HashSet::with_capacity", "std::collections::VecDeque::with_capacity",
                  "std::collections::HashMap::reserve", "std::collections::HashSet::reserve"}
HINT_PASS = {"std::option::Option::unwrap_or", "std::option::Option::unwrap_or_default", "std::option::Option::map", "std::cmp::min", "std::cmp::Ord::min",
             "core::num::saturating_add", "core::num::saturating_sub", "std::ops::Try::branch", "std::option::Option::unwrap_or_else"}


def size_hint_misuse(fx, f):
    """Forward flow of every `SeqAccess/MapAccess::size_hint()` result in f: text parsers give no hint, tree and buffered
    deserializers give the exact length, so anything but a capacity reservation that depends on it differs between channels.
    -> [(what, at)]"""
    from ..core import Body, op_place
    from ..guards import body_of
    b = body_of(fx, f["key"])
    seeds = [(i, t) for (i, t) in b.calls() if norm(t.get("trait")) in ("serde::de::SeqAccess", "serde::de::MapAccess") and (callee_name(t) or "").endswith("::size_hint")]
    if not seeds:
        return None
    tainted = {t["dst"]["l"] for (_i, t) in seeds}
    out = []
    changed = True
    flagged = set()
    while changed:
        changed = False
        for i in sorted(b.reach):
            blk = b.blocks[i]
            for st in blk["stmts"]:
                if st["k"] != "assign":
                    continue
                rv = st["rv"]
                ops = []
                if rv["k"] in ("use", "cast", "unop"):
                    ops = [rv.get("op") or rv.get("a")]
                elif rv["k"] in ("ref", "rawptr", "discr", "len"):
                    ops = [{"copy": rv["place"]}] if "place" in rv else []
                elif rv["k"] == "binop":
                    ops = [rv["a"], rv["b"]]
                elif rv["k"] == "agg":
                    ops = rv["ops"]
                hit = any(op_place(o) is not None and op_place(o)["l"] in tainted for o in ops if o)
                if not hit:
                    continue
                if rv["k"] == "discr":
                    continue            # presence of a hint (Some/None) may select between two ways of reserving
                if rv["k"] == "binop" and rv["op"] in ("Eq", "Ne", "Lt", "Le", "Gt", "Ge", "Cmp") and (i, "cmp") not in flagged:
                    flagged.add((i, "cmp"))
                    out.append(("the size hint is compared (%s)" % rv["op"], st.get("at") or b.at(i)))
                if st["dst"]["l"] not in tainted:
                    tainted.add(st["dst"]["l"])
                    changed = True
            t = blk["term"]
            if not t:
                continue
            if t["k"] == "call":
                if any(op_place(a) is not None and op_place(a)["l"] in tainted for a in t["args"]):
                    n = callee_name(t) or ""
                    if n in CAPACITY_SINKS:
                        continue
                    if n in HINT_PASS or n.endswith("::clone") or n.endswith("::from") or n.endswith("::into"):
                        if t["dst"]["l"] not in tainted:
                            tainted.add(t["dst"]["l"])
                            changed = True
                        continue
                    if (i, "call") not in flagged:
                        flagged.add((i, "call"))
                        out.append(("the size hint flows into %s" % n, t["at"]))
                    if t["dst"]["l"] not in tainted:
                        tainted.add(t["dst"]["l"])
                        changed = True
            elif t["k"] == "switch":
                p = op_place(t.get("discr"))
                if p is not None and p["l"] in tainted and (i, "sw") not in flagged:
                    d = b.single_def(p["l"])
                    if d and d.kind == "assign" and d.node["rv"]["k"] == "discr":
                        continue
                    flagged.add((i, "sw"))
                    out.append(("control flow depends on the size hint", b.at(i)))
    return out


def check_size_hints(ctx, RULE):
    fx = ctx.fx
    n = 0
    for f in fx.doc["fns"]:
        r = size_hint_misuse(fx, f)
        if r is None:
            continue
        n += 1
        ctx.touch_fn(f)
        ctx.inst(RULE, "%s uses size_hint only to reserve capacity" % _clean(f["path"]), not r,
                 "; ".join("%s @ %s" % x for x in r) if r else "the hint reaches capacity reservations only", f["at"])
    ctx.ok(RULE, "size_hint inventory", "%d local function(s) ask a SeqAccess/MapAccess for its size hint; each judged above" % n)
