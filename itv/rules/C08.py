"""C08 - inspections run only after a layout's steps verify, and their failure is fatal."""
from ..core import (callee_name, op_place, op_const, proj_path, as_cmp, leaf_s, OK, F0, F1, SOME, ELEM, SWAP, norm)
from ..guards import body_of, root_ids, same_root, const_int
from ..pipeline import Pipeline, Stages, fld, V_LINK, FILE_WRITES, SPAWN

EXPLANATION = (
    "On the path-sensitive REGION super-graph of in_toto_verify, stages are located by what they contain (file "
    "read, per-link signature check, recursive verification, materials/products comparison, ArtifactRule dispatch, "
    "inspection run). D1: the inspection run is edge-dominated by the signature gate's Ok outcome, the expiry pass "
    "edge and the exhaustion edge of every step-stage loop (loading, thresholds, sub-layouts, agreement, step rules); and a "
    "failed step rule cannot be carried past it: once the return value of a function enclosing the rule dispatch is known to be "
    "Err inside the step-rule stage, no inspection run is reachable on a feasible path. "
    "D2: every process spawn / file write of the region, and every non-inlined local callee that can reach one, lies "
    "behind the step-rule stage (the recursive call is covered inductively). D4: between an inspection's run and the "
    "filing of its link there is a test of the command's return value whose non-zero side cannot reach the filing, and "
    "which cannot be bypassed when a return value is present; the link without a return value that this lets through is "
    "sound because of the producer side: in every function that spawns the process, each path from the spawn to a "
    "non-error return records the Some payload of ExitStatus::code() as the return value. D5: the inspections' artifact rules are applied to the "
    "map holding the inspection links and their Ok outcome dominates the summary.")
DECIDED = ["D1 stage ordering before the inspection run", "D2 no effects before the inspection stage", "D6 an inspection records materials and products of the same fixed path list and runs its own `run` command",
           "D4 non-zero exit status is fatal", "D5 inspection rules applied and fatal"]
UNDECIDED = ["commands not found / the operating system's process semantics (runtime behaviour of run_command, whose Err is propagated)"]
TRUSTED = ["std::process / std::fs are the only effect channels used by the library"]
ASSUMPTIONS = []
FLOORS = {"C08/D1": 7, "C08/D2": 3, "C08/D4": 2, "C08/D5": 2, "C08/D6": 2}


def run(ctx):
    P = Pipeline(ctx)
    if not P.ok or P.gate is None:
        ctx.bad("C08/D1", "anchor", "in_toto_verify / signature gate not found (failing closed)")
        return
    b = P.b
    S = Stages(P)
    insp = [(i, t) for (i, t) in P.runs]
    if not insp:
        ctx.bad("C08/D1", "inspection run", "no call to runlib::in_toto_run / run_command in the verification region")
        return
    # ---- D1
    stage_edges = []
    gate_ok, _ = P.ok_edges(P.gate[0])
    stage_edges.append(("signature gate Ok", gate_ok))
    exp = []
    for (e, tb, f) in b.all_edge_facts():
        c = as_cmp(f)
        if c:
            for (u, v, o) in ((c[1], c[2], c[0]), (c[2], c[1], SWAP[c[0]])):
                if P.is_verified_layout(u, (fld("expires"),)) and o in ("Ge", "Gt") and \
                        all(lf.kind == "call" and callee_name(lf.data[1]) == "chrono::Utc::now" for lf in b.trace(v)):
                    exp.append(e)
    stage_edges.append(("expiry guard pass", exp))
    stage_edges.append(("link loading exhausted", S.exhaustion(S.load)))
    stage_edges.append(("signature thresholds exhausted", S.exhaustion(S.thresh)))
    stage_edges.append(("sub-layout stage exhausted", S.exhaustion(S.sub)))
    stage_edges.append(("agreement check exhausted", S.exhaustion(S.agree)))
    after_run = set()
    for (i, t) in insp:
        after_run |= b.reach_between(i)
    step_rules = [ri for ri in S.rule_instances if ri[2] is not None and min(ri[1]) not in after_run]
    insp_rules = [ri for ri in S.rule_instances if ri not in step_rules]
    stage_edges.append(("step artifact rules exhausted", [e for ri in step_rules for e in S.exhaustion(ri[2])]))
    for (i, t) in insp:
        for (name, edges) in stage_edges:
            if not edges:
                ctx.bad("C08/D1", "%s before inspection run" % name, "stage not found in the verification region (cannot show the ordering)", t["at"])
                continue
            okd = any(i in b.edge_dominated(e) for e in edges)
            ctx.inst("C08/D1", "%s before inspection run" % name, okd,
                     "inspection run at %s is %sedge-dominated by edge(s) %s" % (P.where(i), "" if okd else "NOT ", edges), t["at"])
    # no failure of a step's artifact rules is swallowed: the verdict of the rule engine is the return value of every function
    # instance that encloses the rule dispatch (the engine, and the helpers between it and in_toto_verify); once such a
    # Result<_, Error> is known to be an Err inside the step-rule stage, no feasible path leads on to an inspection run
    # (collecting the violations and reporting them later is the ordering the property forbids)
    run_blocks = {i for (i, t) in insp}
    is_err_ty = lambda ty: ty.startswith("std::result::Result<") and ty.rstrip(">").endswith("error::Error")
    ret_of = {}
    for blk in b.blocks:
        if blk.get("inst"):
            ret_of.setdefault(blk["inst"], blk.get("ret_local"))
    for ri in step_rules:
        encl = set()
        for x in ri[1]:
            parts = (b.blocks[x].get("inst") or "").split("/")
            for n in range(2, len(parts) + 1):
                encl.add("/".join(parts[:n]))
        verdicts = {ret_of[i] for i in encl if ret_of.get(i) is not None and is_err_ty(b.local_ty(ret_of[i]))}
        name = "rule failures of the steps are fatal before any inspection runs%s" % ("" if ri[0] == "/" else " " + ri[0].rsplit("@", 1)[0])
        if not verdicts:
            # the engine is written inline in in_toto_verify itself: its failures are in_toto_verify's own error returns
            ctx.ok("C08/D1", name, "the rule dispatch is not enclosed by any helper returning Result<_, Error>; its failures are error returns of the verification routine itself", b.at(min(ri[1])))
            continue
        sw = b.swallowed_errors(ri[2] or set(ri[1]), run_blocks, lambda l: l in verdicts)
        if sw is None:
            ctx.bad("C08/D1", name, "path sensitivity unavailable (failing closed)")
            continue
        ctx.inst("C08/D1", name, not sw,
                 "verdict values %s of the functions enclosing the rule dispatch; known to be Err inside the step-rule stage with an inspection run still reachable: %s" % (
                     sorted(b.local_name(l) for l in verdicts), [(P.where(x), b.local_name(l)) for (x, l) in sw] or "none"), b.at(sw[0][0]) if sw else b.at(min(ri[1])))
    # ---- D2
    rules_edges = [e for ri in step_rules for e in S.exhaustion(ri[2])]
    behind = set()
    for e in rules_edges:
        behind |= b.edge_dominated(e)
    effects = P.file_writes + P.spawns + P.runs
    for (i, t) in effects:
        ctx.inst("C08/D2", "effect %s%s" % (callee_name(t).split("::")[-1], P.inst_of(i).rsplit("@", 1)[0]), i in behind,
                 "%s is %sbehind the step-rule stage" % (callee_name(t), "" if i in behind else "NOT "), t["at"])
    cg = ctx.cg
    eff_names = FILE_WRITES | SPAWN
    n_chk = 0
    for i, t in b.calls():
        ck = t.get("resolved_key") or t.get("callee_key")
        if ck not in ctx.fx.fns or i in behind:
            continue
        if callee_name(t) == "verifylib::in_toto_verify":
            continue   # the sub-layout's own inspections: covered inductively by D1 applied to the callee
        seen = cg.reachable([ck], stop={ctx.fx.fn("verifylib::in_toto_verify")["key"]})
        hits = cg.ext_reach(seen, eff_names)
        n_chk += 1
        if hits:
            ctx.bad("C08/D2", "callee before inspections: " + callee_name(t), "reaches %s via %s" % (
                callee_name(hits[0][2]), " -> ".join(cg.chain(seen, hits[0][0])[:6])), t["at"])
    ctx.ok("C08/D2", "local callees before the inspection stage", "%d non-inlined local callee(s) before the inspection stage; none can reach a process spawn or file write" % n_chk)
    # ---- D4
    for (ri, rt) in insp:
        payload = ("call", ri, (OK, F0, fld("metadata"), V_LINK, F0))
        ins = [(i, t) for (i, t) in b.calls_named("std::collections::HashMap::insert", "std::collections::BTreeMap::insert")
               if len(t["args"]) == 3 and root_ids(b, t["args"][2]) == frozenset([payload])]
        if not ins:
            ctx.bad("C08/D4", "inspection link filed", "no insertion of the inspection's link (Ok payload of the run) into a map found", rt["at"])
            continue
        loops = [l for l in b.loops().values() if ri in l]
        loop = min(loops, key=len) if loops else set()
        back = [e for (e, tb) in b.back_edges() if tb in loop and b.loop_blocks(tb) == loop]
        tests_ne, tests_eq, none_edges = [], [], []
        def is_retval(x, path=()):
            lv = b.trace(x, path)
            ok_ = False
            for lf in lv:
                if lf.kind == "const":
                    continue
                if lf.kind == "call" and callee_name(lf.data[1]) == "models::link::byproducts::ByProducts::return_value":
                    rr = root_ids(b, lf.data[1]["args"][0])
                    if rr == frozenset([("call", ri, (OK, F0, fld("metadata"), V_LINK, F0, fld("byproducts")))]):
                        ok_ = True
                        continue
                    return False
                if lf.kind == "call" and lf.data[0] == ri and lf.path[:7] == (OK, F0, fld("metadata"), V_LINK, F0, fld("byproducts"), fld("return_value")):
                    ok_ = True
                    continue
                return False
            return ok_
        for (e, tb, f) in b.all_edge_facts():
            if e[0] not in loop:
                continue
            c = as_cmp(f)
            if c:
                for (u, v, o) in ((c[1], c[2], c[0]), (c[2], c[1], SWAP[c[0]])):
                    if const_int(b, v) == 0 and is_retval(u):
                        if o == "Ne" or o in ("Gt", "Lt"):
                            tests_ne.append((e, tb))
                        elif o == "Eq":
                            tests_eq.append((e, tb))
            if f[0] == "variant" and f[2] == "None" and is_retval(f[1]):
                none_edges.append((e, tb))
        for (ii, it) in ins:
            if not tests_ne:
                ctx.bad("C08/D4", "exit status consulted", "the inspection link is filed without any test of the command's return value "
                        "(no comparison of ByProducts::return_value with 0 between the run and the insertion): a failing inspection passes", it["at"])
                continue
            cut_blocks = set()
            removed = set(e for (e, tb) in back)
            leak = [e for (e, tb) in tests_ne if ii in b.reach_between(tb, removed_edges=removed)]
            ctx.inst("C08/D4", "non-zero exit status cannot reach the filing of the link", not leak,
                     "edges on which return value != 0: %s; of these reach the insertion: %s" % ([e for e, _ in tests_ne], leak), it["at"])
            removed2 = set(removed) | set(e for (e, tb) in tests_eq) | set(e for (e, tb) in none_edges)
            byp = ii in b.reach_between(ri, removed_edges=removed2)
            ctx.inst("C08/D4", "the test cannot be bypassed", not byp,
                     "with the `== 0` edge(s) %s and the `no return value` edge(s) %s removed the insertion is %s from the run" % (
                         [e for e, _ in tests_eq], [e for e, _ in none_edges], "STILL reachable" if byp else "unreachable"), it["at"])
    # ---- D4, producer side: the consumer above lets a link WITHOUT a return value through (nothing ran: an empty command).
    # That is only sound if a command that did run always leaves its exit status in the byproducts or fails the run:
    # in every function that spawns the process, each path from the spawn to a non-error return passes the recording of
    # `ExitStatus::code()`'s Some payload as the return value.
    fx, cg = ctx.fx, ctx.cg
    SETRV = "models::link::byproducts::ByProducts::set_return_value"
    prod = set()
    for (ri, rt) in insp:
        ck = rt.get("resolved_key") or rt.get("callee_key")
        if ck in fx.fns:
            for k in set(cg.reachable([ck])) | {ck}:
                if fx.fns[k]["kind"] in ("Fn", "AssocFn") and any(callee_name(t) in SPAWN for (_bb, t, _tg) in cg.sites.get(k, ()) ) :
                    prod.add(fx.root_of(fx.fns[k])["key"] if hasattr(fx, "root_of") else k)
    if not prod:
        # the spawn may sit in a body cg.sites does not list (no local callee): look at every body reachable
        for (ri, rt) in insp:
            ck = rt.get("resolved_key") or rt.get("callee_key")
            if ck in fx.fns:
                for k in set(cg.reachable([ck])) | {ck}:
                    bb_ = body_of(fx, k)
                    if fx.fns[k]["kind"] in ("Fn", "AssocFn") and any(callee_name(t) in SPAWN for (_i, t) in bb_.calls()):
                        prod.add(k)
    if not prod:
        ctx.bad("C08/D4", "exit status always recorded", "no function spawning a process is reachable from the inspection run (cannot show that a run leaves its exit status)")
    for k in sorted(prod):
        rb = ctx.region(None, policy="private", key=k, ps=True)
        spawns = [(i, t) for (i, t) in rb.calls() if callee_name(t) in SPAWN]
        def from_code(x):
            lv = rb.trace(x, (), lambda t: callee_name(t) == "std::process::ExitStatus::code")
            return bool(lv) and all(l.kind == "call" and callee_name(l.data[1]) == "std::process::ExitStatus::code" and l.path == (SOME, F0) for l in lv)
        rec = set()
        for (i, t) in rb.calls_named(SETRV):
            if len(t["args"]) == 2 and from_code(t["args"][1]):
                rec.add(i)
        for i in sorted(rb.reach):
            for st in rb.blocks[i]["stmts"]:
                if st["k"] == "assign" and st["rv"]["k"] == "agg" and st["rv"].get("agg") == "adt" and st["rv"].get("adt", "").endswith("ByProducts") \
                        and "return_value" in st["rv"].get("fields", []):
                    o = st["rv"]["ops"][st["rv"]["fields"].index("return_value")]
                    lv = rb.trace(o, (SOME, F0), lambda t: callee_name(t) == "std::process::ExitStatus::code")
                    if lv and all(l.kind == "call" and callee_name(l.data[1]) == "std::process::ExitStatus::code" and l.path == (SOME, F0) for l in lv):
                        rec.add(i)
        into_rec = {(pb_, jj) for pb_ in rb.reach for jj, (tb, _l) in enumerate(rb.succ[pb_]) if tb in rec}
        for (i, t) in spawns:
            okp = bool(rec) and all(rb._is_err_return_path(i, tb, set(), jj, root=True, removed_edges=into_rec, stop_at_next=False)
                                    for jj, (tb, _l) in enumerate(rb.succ[i]))
            ctx.inst("C08/D4", "a command that ran leaves its exit status or fails the run", okp,
                     "%d site(s) record ExitStatus::code()'s Some payload as the return value; every path from the spawn that avoids them is an error return: %s" % (len(rec), okp), t["at"])
    # ---- D6 what an inspection records
    for (ri, rt) in insp:
        if callee_name(rt) != "runlib::in_toto_run":
            continue
        def const_list(op):
            lv = b.trace(op)
            if len(lv) != 1 or lv[0].kind != "agg" or lv[0].data[2].get("agg") != "array":
                return None
            vals = []
            for o in lv[0].data[2]["ops"]:
                c = op_const(o)
                if c is None or "str" not in c:
                    return None
                vals.append(c["str"])
            return vals
        mats, prods = const_list(rt["args"][2]), const_list(rt["args"][3])
        ctx.inst("C08/D6", "inspection records materials and products of the same fixed, non-empty path list", bool(mats) and mats == prods,
                 "material paths %s (<- %s), product paths %s (<- %s)" % (mats, P.leaves_s(rt["args"][2]), prods, P.leaves_s(rt["args"][3])), rt["at"])
        # every element of the argument vector derives from the verified layout's inspect[].run (whatever builds the vector:
        # map + collect, a push loop, ...)
        want = P.gate_leaf_path(fld("inspect"), ELEM, fld("run"))
        cl = b.trace(rt["args"][4], (ELEM,), None, {"__content__": True})
        okc = bool(cl) and all(x.kind == "call" and x.data[0] == P.gate[0] and x.path[:len(want)] == want for x in cl)
        ctx.inst("C08/D6", "inspection command is the inspection's `run` field", okc, "elements of the command arguments <- {%s}" % ", ".join(leaf_s(b, x) for x in cl), rt["at"])
    # ---- D5
    if not insp_rules:
        ctx.bad("C08/D5", "inspection rules", "no artifact-rule application behind the inspection run")
    for (top, blks, lp) in insp_rules:
        ex = S.exhaustion(lp)
        okd = bool(ex) and all(any(si in b.edge_dominated(e) for e in ex) for (si, st) in P.summaries)
        ctx.inst("C08/D5", "inspection rules precede the summary", okd,
                 "rule application %s: exhaustion edge(s) %s %sdominate the summary construction" % (top, ex, "" if okd else "do NOT "))
        # items come from layout.inspect
        hdr = [x for x in sorted(lp or []) if b.blocks[x]["term"] and b.blocks[x]["term"]["k"] == "call" and
               callee_name(b.blocks[x]["term"]) == "std::iter::Iterator::next" and lp == b.loop_blocks(x)] if lp else []
        # the map the rules read contains the inspection links
        gets = [(i, t) for (i, t) in b.calls_named("std::collections::HashMap::get") if i in (lp or set())
                and (t.get("arg_tys") or [""])[0].endswith("LinkMetadata>")]
        okm = False
        detail = "no lookup of the item's link in the rule stage"
        for (gi, gt) in gets:
            rr = root_ids(b, gt["args"][0])
            for (k, l_, p_) in rr:
                pass
            # find the local map and its mutators
            pl = op_place(gt["args"][0])
            maps = {lf.data for lf in b.trace(gt["args"][0]) if lf.kind == "param"}
            base = None
            for lf in b.trace(gt["args"][0], follow_mut=True):
                if lf.kind == "mut":
                    (mb, mt, mai) = lf.data
                    if callee_name(mt) in ("std::iter::Extend::extend", "std::collections::HashMap::insert") and mai == 0:
                        src = mt["args"][1] if callee_name(mt).endswith("extend") else mt["args"][2]
                        for l2 in b.trace(src, follow_mut=True):
                            if l2.kind == "mut" and callee_name(l2.data[1]) == "std::collections::HashMap::insert":
                                vr = root_ids(b, l2.data[1]["args"][2])
                                if any(r[0] == "call" and any(r[1] == ri for (ri, rt) in insp) for r in vr):
                                    okm = True
                                    detail = "the rule stage reads a map extended (at %s) with the map that receives the inspection links" % mt["at"]
                            if l2.kind == "call" and any(l2.data[0] == ri for (ri, rt) in insp):
                                okm = True
                                detail = "the rule stage reads a map into which the inspection link is inserted"
        ctx.inst("C08/D5", "inspection rules read the inspection links", okm, detail)
