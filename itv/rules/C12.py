"""C12 - key identity is intrinsic, stable, interoperable and cannot be aliased."""
import re
from ..core import (Body, callee_name, norm, op_const, op_place, proj_path, as_cmp, as_pred, leaf_s, OK, F0, F1, SOME, ELEM)
from ..guards import root_ids, body_of, def_call
from . import shared, keys, C04, canon

EXPLANATION = (
    "Encapsulation, provenance and table rules. D1: crypto::PublicKey has no public field, exactly one hand-written "
    "construction site, whose key_id operand is calculate_key_id(typ, scheme, keyid_hash_algorithms, value) applied to the "
    "very operands that fill the other fields; no code assigns a field of a PublicKey afterwards and no public function "
    "hands out &mut PublicKey; KeyId is only constructed by the hash computation and by FromStr. D2: the key-id pre-image is "
    "the canonical form of the shim built from exactly {keytype, scheme, keyid_hash_algorithms, public key bytes} with "
    "keyid = None and private = false, hashed with SHA-256 and hex-encoded. D3: the JSON decoder passes the parsed "
    "hash-algorithm list and scheme to the constructor and the encoder writes the stored ones. D4: a parsed layout's key "
    "table is built through a filter whose predicate is `table key == PublicKey::key_id(value)`, and the builder files keys "
    "under key.key_id(). D6: per key type the AlgorithmIdentifier parameters written by the SPKI exporter, accepted by the "
    "importer and prescribed by the standard (RSA: NULL, Ed25519: absent, ECDSA: named-curve OID) agree.")
DECIDED = ["D1 intrinsic id by construction (encapsulation)", "D2 id pre-image", "D3 JSON round trip keeps the identity inputs",
           "D4 parsed / built key tables are consistent", "D5 signatures are checked against the key of that id (C04 D2+D4, re-checked)",
           "D6 SPKI reader / writer / standard parameter tables agree"]
UNDECIDED = ["that different construction paths choose the same default hash-algorithm list (an API choice pinned by the compatibility tests)",
             "DER validity beyond the AlgorithmIdentifier parameter shape"]
TRUSTED = ["ring SHA-256", "derp DER reader/writer"]
ASSUMPTIONS = []
FLOORS = {"C12/D1": 7, "C12/D2": 4, "C12/D3": 5, "C12/D4": 2, "C12/D6": 6, "C04/D4": 3}

PK = "crypto::PublicKey"
STANDARD = {"Rsa": "NULL", "Ed25519": "ABSENT", "Ecdsa": "OID"}


def run(ctx):
    canon.resolve_names(ctx)
    fx = ctx.fx
    adt = fx.adts.get(PK)
    if adt is None:
        ctx.bad("C12/D1", "crypto::PublicKey", "type not found (failing closed)")
        return
    # ---- D1
    pubf = [fl["name"] for fl in adt["variants"][0]["fields"] if fl["pub"]]
    ctx.inst("C12/D1", "PublicKey has no public field", not pubf, "public fields: %s" % pubf, adt["at"])
    kid = fx.adts.get("crypto::KeyId")
    ctx.inst("C12/D1", "KeyId's field is private", bool(kid) and not any(fl["pub"] for fl in kid["variants"][0]["fields"]), "KeyId(%s)" % (
        [(fl["ty"], "pub" if fl["pub"] else "private") for fl in kid["variants"][0]["fields"]] if kid else None))
    sites = shared.agg_sites(fx, PK)
    hand = [(p, bb, rv) for (p, bb, exp, rv) in sites if not exp]
    ctx.inst("C12/D1", "single construction site", len(hand) == 1,
             "hand-written construction sites of PublicKey: %s (derived: %s)" % ([p for (p, _, _) in hand], sorted({p for (p, bb, exp, rv) in sites if exp})))
    nf = fx.fn_opt(hand[0][0]) if len(hand) == 1 else None
    nb = None
    if nf:
        # in the REGION of the constructor (the key-id computation and the wire-form builder inlined, whatever their names and
        # however they receive their arguments): the identifier is the hash of the wire form of exactly the four stored parts
        wf = keys.wire_form_args(ctx, nf["key"])
        okk = False
        detail = "no single construction of the wire form (shims::PublicKey::new) in the region of the constructor"
        if wf:
            nb, wt, parts = wf
            site = [st for i in sorted(nb.reach) for st in nb.blocks[i]["stmts"] if st["k"] == "assign" and st["rv"].get("adt") == PK and
                    nb.blocks[i].get("origin_key", nf["key"]) == nf["key"]]
            if len(site) == 1:
                ops = dict(zip(site[0]["rv"]["fields"], site[0]["rv"]["ops"]))
                same = {}
                for fname in ("typ", "scheme", "keyid_hash_algorithms"):
                    ra = frozenset((l.kind, l.data if l.kind == "param" else str(l.data)[:40], l.path) for l in parts[fname])
                    rf = frozenset((l.kind, l.data if l.kind == "param" else str(l.data)[:40], l.path) for l in nb.trace(ops[fname]))
                    same[fname] = bool(ra) and ra == rf
                # the key text derives from the bytes stored in `value` (wrapped as PublicKeyValue) and from nothing else but the key type
                vroots = set()
                for l in nb.trace(ops["value"]):
                    if l.kind == "agg":
                        vroots |= {(x.kind, x.data if x.kind == "param" else None, x.path) for x in nb.trace(l.data[2]["ops"][0])}
                    else:
                        vroots.add((l.kind, l.data if l.kind == "param" else None, l.path))
                troots = {(l.kind, l.data if l.kind == "param" else None, l.path) for l in nb.trace(ops["typ"])}
                got = {(l.kind, l.data if l.kind == "param" else None, l.path) for l in parts["value"]}
                # (a part of the key type - the name inside KeyType::Unknown quoted in an error text - is the key type)
                tparams = {(k_, d_) for (k_, d_, p_) in troots if k_ == "param"}
                same["value"] = bool(got & vroots) and all(g_ in vroots or g_ in troots or (g_[0] == "param" and (g_[0], g_[1]) in tparams) for g_ in got)
                no_id = bool(parts["keyid"]) and all(l.kind == "agg" and l.data[2].get("variant") == "None" for l in parts["keyid"])
                no_priv = all(l.kind in ("const", "agg") for l in parts["private"]) and not any(
                    l.kind == "const" and l.data.get("int") == 1 for l in parts["private"])
                # the stored key_id is the identifier computed here (D2 checks that it is hex(digest) of that wire form), not a
                # value looked up or carried in from elsewhere
                kl = nb.trace(ops["key_id"])
                fresh = bool(kl) and all(l.kind == "agg" and l.data[2].get("adt") == "crypto::KeyId" for l in kl)
                same["key_id is the identifier computed in the constructor"] = fresh
                okk = all(same.values()) and no_id and no_priv
                detail = "wire-form parts equal the operands stored in typ/scheme/keyid_hash_algorithms/value: %s; no keyid part: %s; no private part: %s" % (same, no_id, no_priv)
        ctx.inst("C12/D1", "key_id = <key id function>(the stored typ, scheme, hash algorithms, value)", okk, detail, nf["at"])
    else:
        ctx.bad("C12/D1", "constructor", "no single hand-written construction site of PublicKey")
    # no field assignment to a PublicKey anywhere else
    writes = []
    for f in fx.doc["fns"]:
        if f.get("exp") and not str(f["exp"]).startswith("s:"):
            continue
        for bi, blk in enumerate(f["blocks"]):
            if blk["cleanup"]:
                continue
            for st in blk["stmts"]:
                if st["k"] == "assign" and any(isinstance(e, dict) and e.get("of", "").startswith(PK + "::") for e in st["dst"]["p"]):
                    writes.append((f["path"], st["at"]))
                if st["k"] == "assign" and st["rv"]["k"] == "ref" and st["rv"].get("mut") and \
                        any(isinstance(e, dict) and e.get("of", "").startswith(PK + "::") for e in st["rv"]["place"]["p"]):
                    writes.append((f["path"] + " (&mut field)", st["at"]))
    ctx.inst("C12/D1", "no field of a PublicKey is assigned after construction", not writes, "assignments / &mut borrows of PublicKey fields: %s" % writes)
    # no public function hands out &mut PublicKey / &mut KeyId
    leaks = []
    for f in fx.doc["fns"]:
        if f.get("pub") and f["kind"] in ("Fn", "AssocFn") and not f.get("exp"):
            rt = f["locals"][0]["ty"]
            if re.search(r"&(?:'\w+ )?mut (crypto::)?(PublicKey|KeyId)\b", rt):
                leaks.append((f["path"], rt))
    ctx.inst("C12/D1", "no public function returns &mut PublicKey / &mut KeyId", not leaks, "offenders: %s" % leaks)
    ksites = [(p, exp) for (p, bb, exp, rv) in shared.agg_sites(fx, "crypto::KeyId") if not exp]
    others = sorted(p for (p, _) in ksites if p != "<crypto::KeyId as std::str::FromStr>::from_str")
    ctx.inst("C12/D1", "KeyId construction sites", "<crypto::KeyId as std::str::FromStr>::from_str" in [p for (p, _) in ksites] and len(others) == 1,
             "hand-written construction sites of KeyId: %s (the parser, and one function that computes an identifier - its payload is checked in D2)" % sorted(p for (p, _) in ksites))
    # ---- D2
    cf = nf
    sf = True
    if nb is not None:
        cb = nb
        dg = [(i, t) for (i, t) in cb.calls_named("ring::digest::Context::new")]
        alg = set()
        for (i, t) in dg:
            for l in cb.trace(t["args"][0]):
                alg.add(l.data.get("static") if l.kind == "const" else "?")
        ctx.inst("C12/D2", "hashed with SHA-256", alg == {"ring::digest::SHA256"}, "digest algorithm(s): %s" % sorted(alg), cf["at"])
        idl = []
        for i_ in sorted(cb.reach):
            for st_ in cb.blocks[i_]["stmts"]:
                if st_["k"] == "assign" and st_["rv"].get("adt") == "crypto::KeyId":
                    idl += cb.trace(st_["rv"]["ops"][0])
        okid = bool(idl) and all(l.kind == "call" and callee_name(l.data[1]) == "data_encoding::Encoding::encode" for l in idl)
        if okid:
            for l in idl:
                src = cb.trace(l.data[1]["args"][1])
                okid = okid and bool(src) and all(s_.kind == "call" and callee_name(s_.data[1]) == "ring::digest::Context::finish" for s_ in src)
        ctx.inst("C12/D2", "key id = hex(digest)", okid, "KeyId payload <- {%s}" % ", ".join(leaf_s(cb, l) for l in idl), cf["at"])
        # what is hashed is (a serialisation of) that wire form and nothing else
        upd = cb.calls_named("ring::digest::Context::update")
        okh = len(upd) >= 1
        hl = []
        for (i, t) in upd:
            hl = [l for l in cb.trace(t["args"][1], (), lambda tt: callee_name(tt) == keys.SHIM_CTOR, {"__flow_all__": lambda tt: True, "__agg_all__": True})
                  if l.kind not in ("const",) and not (l.kind == "agg" and l.data[2].get("agg") == "closure")]
            # (the error text of the unknown-key-type arm mentions the key type: a parameter leaf, part of the wire form anyway)
            okh = okh and any(l.kind == "call" and callee_name(l.data[1]) == keys.SHIM_CTOR for l in hl) and \
                all((l.kind == "call" and callee_name(l.data[1]) == keys.SHIM_CTOR) or l.kind == "param" for l in hl)
        ctx.inst("C12/D2", "pre-image = shim(key type, scheme, hash algorithms, key bytes; no keyid, no private part)", okh,
                 "bytes fed to the digest derive from {%s}" % ", ".join(sorted({leaf_s(cb, l)[:80] for l in hl})), cf["at"])
        chains = canon.check_derivations(ctx, "C12/D2")
    else:
        ctx.bad("C12/D2", "key id computation", "the constructor's region has no single wire-form construction to hash (failing closed)")
    # ---- D3
    keys.check_pubkey_deser(ctx, "C12/D3")
    ser = [g for g in fx.doc["fns"] if g["path"].startswith("<crypto::PublicKey as") and g["path"].endswith("Serialize>::serialize")]
    if len(ser) == 1:
        wf2 = keys.wire_form_args(ctx, ser[0]["key"])
        got = {}
        if wf2:
            for name in ("typ", "scheme", "keyid_hash_algorithms", "value", "keyid"):
                got[name] = sorted({l.path[0][1] if (l.kind == "param" and l.data == 1 and l.path) else "?" for l in wf2[2][name] if l.kind != "agg" or name != "keyid"})
        okse = bool(wf2) and got["typ"] == ["typ"] and got["scheme"] == ["scheme"] and got["keyid_hash_algorithms"] == ["keyid_hash_algorithms"] \
            and "value" in got["value"] and set(got["value"]) <= {"value", "typ"}
        ctx.inst("C12/D3", "encoder writes the stored identity inputs", okse, "wire form built from self.%s" % got, ser[0]["at"])
    else:
        ctx.bad("C12/D3", "PublicKey encoder", "hand-written Serialize not found")
    # ---- D4
    keys.check_key_table_filter(ctx, "C12/D4")
    # ---- D5
    shared.check_threshold_core(ctx, prefix="C04")
    # ---- D6
    keys.check_spki_tables(ctx, "C12/D6", STANDARD)
    keys.check_der_integers(ctx, "C12/D6")
