"""C12 - key identity is intrinsic, stable, interoperable and cannot be aliased."""
import re
from ..core import (Body, callee_name, norm, op_const, op_place, proj_path, as_cmp, as_pred, leaf_s, OK, F0, F1, SOME, ELEM)
from ..guards import root_ids, body_of, def_call
from . import shared, keys, C04, canon

EXPLANATION = (
    "Encapsulation, provenance and table rules. D1: crypto::PublicKey has no public field, exactly one hand-written "
    "construction site, whose key_id operand is calculate_key_id(typ, scheme, keyid_hash_algorithms, value) applied to the "
    "very operands that fill the other fields; no code assigns a field of a PublicKey afterwards and no public function "
    "hands out &mut PublicKey; KeyId is only constructed by the hash computation and by FromStr. D2: the key-id pre-image is "
    "the canonical form of the shim built from exactly {keytype, scheme, keyid_hash_algorithms, public key bytes} with "
    "keyid = None and private = false, hashed with SHA-256 and hex-encoded. D3: the JSON decoder passes the parsed "
    "hash-algorithm list and scheme to the constructor and the encoder writes the stored ones. D4: a parsed layout's key "
    "table is built through a filter whose predicate is `table key == PublicKey::key_id(value)`, and the builder files keys "
    "under key.key_id(). D6: per key type the AlgorithmIdentifier parameters written by the SPKI exporter, accepted by the "
    "importer and prescribed by the standard (RSA: NULL, Ed25519: absent, ECDSA: named-curve OID) agree.")
DECIDED = ["D1 intrinsic id by construction (encapsulation)", "D2 id pre-image", "D3 JSON round trip keeps the identity inputs",
           "D4 parsed / built key tables are consistent", "D5 signatures are checked against the key of that id (C04 D2+D4, re-checked)",
           "D6 SPKI reader / writer / standard parameter tables agree"]
UNDECIDED = ["that different construction paths choose the same default hash-algorithm list (an API choice pinned by the compatibility tests)",
             "DER validity beyond the AlgorithmIdentifier parameter shape"]
TRUSTED = ["ring SHA-256", "derp DER reader/writer"]
ASSUMPTIONS = []
FLOORS = {"C12/D1": 7, "C12/D2": 4, "C12/D3": 5, "C12/D4": 2, "C12/D6": 6, "C04/D4": 3}

PK = "crypto::PublicKey"
STANDARD = {"Rsa": "NULL", "Ed25519": "ABSENT", "Ecdsa": "OID"}


def run(ctx):
    canon.resolve_names(ctx)
    fx = ctx.fx
    adt = fx.adts.get(PK)
    if adt is None:
        ctx.bad("C12/D1", "crypto::PublicKey", "type not found (failing closed)")
        return
    # ---- D1
    pubf = [fl["name"] for fl in adt["variants"][0]["fields"] if fl["pub"]]
    ctx.inst("C12/D1", "PublicKey has no public field", not pubf, "public fields: %s" % pubf, adt["at"])
    kid = fx.adts.get("crypto::KeyId")
    ctx.inst("C12/D1", "KeyId's field is private", bool(kid) and not any(fl["pub"] for fl in kid["variants"][0]["fields"]), "KeyId(%s)" % (
        [(fl["ty"], "pub" if fl["pub"] else "private") for fl in kid["variants"][0]["fields"]] if kid else None))
    sites = shared.agg_sites(fx, PK)
    hand = [(p, bb, rv) for (p, bb, exp, rv) in sites if not exp]
    ctx.inst("C12/D1", "single construction site", len(hand) == 1,
             "hand-written construction sites of PublicKey: %s (derived: %s)" % ([p for (p, _, _) in hand], sorted({p for (p, bb, exp, rv) in sites if exp})))
    nf = fx.fn_opt(hand[0][0]) if len(hand) == 1 else None
    KEYID_FN = None       # the function computing a key's identifier, found as the producer of the constructor's key_id operand
    if nf:
        nb = body_of(fx, nf["key"])
        ctx.touch_body(nb)
        rv = hand[0][2]
        ops = dict(zip(rv["fields"], rv["ops"]))
        kl = nb.trace(ops["key_id"])
        okk = len(kl) == 1 and kl[0].kind == "call" and kl[0].path == (OK, F0) and \
            (kl[0].data[1].get("resolved_key") or kl[0].data[1].get("callee_key")) in fx.fns
        detail = "key_id <- {%s}" % ", ".join(leaf_s(nb, l) for l in kl)
        if okk:
            ct = kl[0].data[1]
            KEYID_FN = fx.fns[ct.get("resolved_key") or ct.get("callee_key")]
            names = ["typ", "scheme", "keyid_hash_algorithms", "value"]
            same = []
            for ai, fname in enumerate(names):
                if ai >= len(ct["args"]):
                    same.append(False)
                    continue
                ra = root_ids(nb, ct["args"][ai])
                rf = root_ids(nb, ops[fname])
                # `value` is wrapped as PublicKeyValue(value): compare with the wrapped operand
                if fname == "value":
                    rf = set()
                    for l in nb.trace(ops[fname]):
                        if l.kind == "agg":
                            rf |= set(root_ids(nb, l.data[2]["ops"][0]))
                        else:
                            rf.add((l.kind, l.data if l.kind == "param" else str(l.data), l.path))
                    rf = frozenset(rf)
                same.append(bool(ra) and ra == rf)
            okk = all(same)
            detail += "; arguments are the operands stored in typ/scheme/keyid_hash_algorithms/value: %s" % same
        ctx.inst("C12/D1", "key_id = <key id function>(the stored typ, scheme, hash algorithms, value)", okk, detail, nf["at"])
    else:
        ctx.bad("C12/D1", "constructor", "no single hand-written construction site of PublicKey")
    # no field assignment to a PublicKey anywhere else
    writes = []
    for f in fx.doc["fns"]:
        if f.get("exp") and not str(f["exp"]).startswith("s:"):
            continue
        for bi, blk in enumerate(f["blocks"]):
            if blk["cleanup"]:
                continue
            for st in blk["stmts"]:
                if st["k"] == "assign" and any(isinstance(e, dict) and e.get("of", "").startswith(PK + "::") for e in st["dst"]["p"]):
                    writes.append((f["path"], st["at"]))
                if st["k"] == "assign" and st["rv"]["k"] == "ref" and st["rv"].get("mut") and \
                        any(isinstance(e, dict) and e.get("of", "").startswith(PK + "::") for e in st["rv"]["place"]["p"]):
                    writes.append((f["path"] + " (&mut field)", st["at"]))
    ctx.inst("C12/D1", "no field of a PublicKey is assigned after construction", not writes, "assignments / &mut borrows of PublicKey fields: %s" % writes)
    # no public function hands out &mut PublicKey / &mut KeyId
    leaks = []
    for f in fx.doc["fns"]:
        if f.get("pub") and f["kind"] in ("Fn", "AssocFn") and not f.get("exp"):
            rt = f["locals"][0]["ty"]
            if re.search(r"&(?:'\w+ )?mut (crypto::)?(PublicKey|KeyId)\b", rt):
                leaks.append((f["path"], rt))
    ctx.inst("C12/D1", "no public function returns &mut PublicKey / &mut KeyId", not leaks, "offenders: %s" % leaks)
    ksites = [(p, exp) for (p, bb, exp, rv) in shared.agg_sites(fx, "crypto::KeyId") if not exp]
    ctx.inst("C12/D1", "KeyId construction sites", sorted(p for (p, _) in ksites) == sorted(["<crypto::KeyId as std::str::FromStr>::from_str"] + ([KEYID_FN["path"]] if KEYID_FN else [])),
             "hand-written construction sites of KeyId: %s" % sorted(p for (p, _) in ksites))
    # ---- D2
    cf = KEYID_FN
    sf = keys.find_shim_fn(fx)
    SHIM = sf["path"] if sf else None
    if cf and sf:
        cb = ctx.region(None, policy="private", key=cf["key"])
        # the shim may be built in a module-private helper: look through private callees (shim_public_key itself stays a call)
        from ..cg import inline_region
        from ..core import Body as _B
        pol = lambda fn: fn["kind"] in ("Fn", "AssocFn") and not fn.get("impl_trait") and fn.get("vis") != "Public" and fn["path"] != SHIM
        cb = _B(inline_region(fx, cf["key"], 4, pol))
        ctx.touch_body(cb)
        sc = cb.calls_named(SHIM)
        oks = len(sc) == 1
        detail = "%d call(s) of the wire-form builder %s" % (len(sc), SHIM)
        if oks:
            t = sc[0][1]
            roots = [root_ids(cb, a) for a in t["args"][:4]]
            oks = roots == [frozenset([("param", i, ())]) for i in (1, 2, 3, 4)] and (op_const(t["args"][4]) or {}).get("int") == 0
            kl = cb.trace(t["args"][5])
            oks = oks and bool(kl) and all(l.kind == "agg" and l.data[2].get("variant") == "None" for l in kl)
            detail = "shim_public_key(%s, private=%s, keyid=%s)" % ([sorted(r) for r in roots], (op_const(t["args"][4]) or {}).get("int"), [leaf_s(cb, l) for l in kl])
        ctx.inst("C12/D2", "pre-image = shim(key type, scheme, hash algorithms, key bytes; no keyid, no private part)", oks, detail, cf["at"])
        dg = [(i, t) for (i, t) in cb.calls_named("ring::digest::Context::new")]
        alg = set()
        for (i, t) in dg:
            for l in cb.trace(t["args"][0]):
                alg.add(l.data.get("static") if l.kind == "const" else "?")
        ctx.inst("C12/D2", "hashed with SHA-256", alg == {"ring::digest::SHA256"}, "digest algorithm(s): %s" % sorted(alg), cf["at"])
        idl = []
        for i_ in sorted(cb.reach):
            for st_ in cb.blocks[i_]["stmts"]:
                if st_["k"] == "assign" and st_["rv"].get("adt") == "crypto::KeyId":
                    idl += cb.trace(st_["rv"]["ops"][0])
        okid = bool(idl) and all(l.kind == "call" and callee_name(l.data[1]) == "data_encoding::Encoding::encode" for l in idl)
        if okid:
            for l in idl:
                src = cb.trace(l.data[1]["args"][1])
                okid = okid and bool(src) and all(s_.kind == "call" and callee_name(s_.data[1]) == "ring::digest::Context::finish" for s_ in src)
        ctx.inst("C12/D2", "key id = hex(digest)", okid, "KeyId payload <- {%s}" % ", ".join(leaf_s(cb, l) for l in idl), cf["at"])
        # shim construction inside shim_public_key
        sb = body_of(fx, sf["key"])
        ctx.touch_body(sb)
        nc = sb.calls_named("interchange::cjson::shims::PublicKey::new")
        oksh = len(nc) == 1
        if oksh:
            t = nc[0][1]
            r0, r1, r2 = root_ids(sb, t["args"][0]), root_ids(sb, t["args"][1]), root_ids(sb, t["args"][2])
            keyl = sb.trace(t["args"][3], (), None, {"__flow_all__": lambda tt: True, "__agg_all__": True})
            only_p4 = bool(keyl) and all((l.kind == "param" and l.data in (4, 1)) or l.kind == "const" for l in keyl) and any(l.kind == "param" and l.data == 4 for l in keyl)
            oksh = r0 == frozenset([("param", 1, ())]) and r1 == frozenset([("param", 2, ())]) and r2 == frozenset([("param", 3, ())]) and only_p4 \
                and root_ids(sb, t["args"][4]) == frozenset([("param", 6, ())])
        ctx.inst("C12/D2", "shim fields come from the corresponding arguments", oksh, "shims::PublicKey::new(keytype, scheme, hash algorithms, encode(public key), keyid, private)", sf["at"])
        chains = canon.check_derivations(ctx, "C12/D2")
    else:
        ctx.bad("C12/D2", "key id function / wire-form builder", "not found by role (producer of the constructor's key_id; the function calling shims::PublicKey::new)")
    # ---- D3
    keys.check_pubkey_deser(ctx, "C12/D3")
    ser = [g for g in fx.doc["fns"] if g["path"].startswith("<crypto::PublicKey as") and g["path"].endswith("Serialize>::serialize")]
    if len(ser) == 1:
        b = body_of(fx, ser[0]["key"])
        sc = b.calls_named(SHIM) if SHIM else []
        okse = len(sc) == 1
        if okse:
            t = sc[0][1]
            want = ["typ", "scheme", "keyid_hash_algorithms", "value"]
            got = []
            for ai in range(4):
                r = root_ids(b, t["args"][ai])
                got.append(sorted(p[0][1] for (k, i, p) in r if k == "param" and i == 1 and p))
            okse = all(g and g[0] == w for g, w in zip(got, want))
            ctx.inst("C12/D3", "encoder writes the stored identity inputs", okse, "shim_public_key(self.%s)" % got, ser[0]["at"])
    else:
        ctx.bad("C12/D3", "PublicKey encoder", "hand-written Serialize not found")
    # ---- D4
    keys.check_key_table_filter(ctx, "C12/D4")
    # ---- D5
    shared.check_threshold_core(ctx, prefix="C04")
    # ---- D6
    keys.check_spki_tables(ctx, "C12/D6", STANDARD)
