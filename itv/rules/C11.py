"""C11 - signed bytes and key-id pre-images match the in-toto reference (OLPC) encoding."""
from . import canon

EXPLANATION = (
    "The string encoder of the canonical writer is serde_json::to_string, whose escape set (pinned dependency, frozen "
    "summary) is {quote, backslash, U+0000-U+001F} with the escape letters \\\" \\\\ \\b \\f \\n \\r \\t \\u. The reference (OLPC) "
    "form escapes only quote and backslash. D1: every site that signs, verifies or hashes a key-id pre-image post-processes "
    "the canonical text with a local un-escaper whose dispatch covers every escape letter serde_json can emit and which "
    "re-emits a backslash for quote and backslash. D2: the un-escaping is a sequential scanner over the characters, not a "
    "context-free textual replace. D3: the key-id pre-image uses the same path as the signed bytes.")
DECIDED = ["D1 net escape set = {quote, backslash}", "D2 context-sensitive un-escaping", "D3 key-id pre-image uses the same derivation"]
UNDECIDED = ["byte-for-byte equality with the reference implementation for every document (number and key rendering are covered by C10; the rest is value-level)"]
TRUSTED = ["serde_json::to_string escape table (version pinned by Cargo.lock)"]
ASSUMPTIONS = []
FLOORS = {"C11/D1": 16, "C11/D2": 4, "C11/D3": 8}


def run(ctx):
    canon.resolve_names(ctx)
    canon.to_bytes_is_canonical(ctx, "C11/D3")
    chains = canon.check_derivations(ctx, "C11/D3")
    # premise of D1: the writer's only string encoder is serde_json::to_string
    canon.check_writer(ctx, "C11/D1", "C11/D1")
    canon.check_member_order(ctx, "C11/D1")
    canon.check_olpc(ctx, chains, "C11/D1", "C11/D2")
