"""C09 - whatever the library signs verifies again after a trip through the wire format."""
from . import canon, shared, C04, keys
from ..ss import Schema

EXPLANATION = (
    "Sibling-agreement rules. D1: Metablock::new, MetablockBuilder::sign, Metablock::verify and the key-id pre-image all "
    "derive their bytes from the canonical bytes of the metadata through the same post-processing chain, and to_bytes is "
    "canonicalize(serialize(self)). D2: the sign / verify scheme tables agree (C04/D6, re-checked), and every non-private PublicKey constructor that is "
    "told a signature scheme (or key-id hash algorithms) stores exactly that parameter, or hands exactly it to the next constructor. D3: a single codec "
    "alphabet (data_encoding::HEXLOWER) is used for everything written and read. D4: Signature's and Metablock's "
    "serialised key sets equal their accepted key sets (schema extracted from the derive-expanded code), and the string "
    "newtypes (artifact paths, key ids) store the decoded text unchanged.")
DECIDED = ["D1 one signed-bytes derivation at all sites", "D2 sign/verify scheme tables agree", "D3 one hex codec", "D4 signature / block schema symmetry"]
UNDECIDED = ["round trip of arbitrary Unicode through serde_json text", "bit-flip / foreign-key negatives (cryptography)"]
TRUSTED = ["serde_json round-trips strings", "ring"]
ASSUMPTIONS = []
FLOORS = {"C09/D1": 9, "C09/D2": 4, "C09/D3": 2, "C09/D4": 4, "C04/D6": 9}


def run(ctx):
    canon.resolve_names(ctx)
    canon.to_bytes_is_canonical(ctx, "C09/D1")
    canon.check_derivations(ctx, "C09/D1")
    # what to_writer emits is the canonicaliser's output: it must stay plain (valid) JSON, i.e. not be post-processed
    canon.check_public_canonicalize(ctx, "C09/D1")
    # ... and its strings and keys must be escaped the way the reader un-escapes them (serde_json's own escaper): a block written in
    # the compact layout has to be readable back before it can verify
    canon.check_writer(ctx, "C09/D1", "C09/D1")
    # the verifier visits every signature of the block once and counts each valid authorised one (positive direction of the round trip)
    shared.check_threshold_core(ctx, prefix="C04")
    # a key is what its importer was told it is: the declared scheme reaches the key unchanged (negative direction: the same
    # material declared with another scheme is another key, with another id, and does not verify)
    keys.check_declared_passthrough(ctx, "C09/D2")
    canon.check_codec(ctx, "C09/D3")
    # what is read back is what was written: string newtypes keep the decoded text (a path or key id rewritten on the way in is
    # signed over one text and verified over another)
    keys.check_string_newtypes(ctx, "C09/D4")
    S = Schema(ctx.fx)
    for ty in ("crypto::Signature", "models::metadata::Metablock"):
        s, d = S.ser.get(ty), S.de.get(ty)
        if not s or not d:
            ctx.bad("C09/D4", ty, "Serialize/Deserialize impl not found")
            continue
        sk = sorted(e["key"] for e in s["entries"])
        dk = sorted(d["keys"])
        ctx.inst("C09/D4", "%s wire keys" % ty, sk == dk and sorted(d["missing"]) == dk and not any(e["guard"] for e in s["entries"]),
                 "serialised keys %s, accepted keys %s, required keys %s" % (sk, dk, sorted(d["missing"])), s["at"])
    # D2
    import types
    sub = types.SimpleNamespace()
    C04.run_d6(ctx) if hasattr(C04, "run_d6") else None
