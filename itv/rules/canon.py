"""Canonical JSON writer, signed-bytes derivation and codec rules shared by C05, C09, C10, C11."""
import re
from ..core import (Body, callee_name, norm, op_const, op_place, proj_path, as_cmp, as_pred, leaf_s, short, OK, F0, F1, SOME, ELEM)
from ..guards import root_ids, body_of, const_int, def_call
from . import shared

# module-private functions of the canonicaliser, found by role from the public <Json as DataInterchange>::canonicalize
# (resolve_names); the defaults are only what they are called today
WRITE = "interchange::cjson::Value::write"
CONVERT = "interchange::cjson::convert"
CANON_PRIV = "interchange::cjson::canonicalize"


def resolve_names(ctx):
    """CONVERT: the local function reachable from the public canonicalize that takes a &serde_json::Value and returns
    Result<the canonical tree type, _>; WRITE: the local method taking (&tree, &mut Vec<u8>); CANON_PRIV: the local function
    whose region calls both and which the public trait method calls."""
    global WRITE, CONVERT, CANON_PRIV
    fx, cg = ctx.fx, ctx.cg
    pub = [fx.fns[m["key"]] for im in fx.impls if (im.get("trait") or "").endswith("DataInterchange") and im["self_ty"].endswith("cjson::Json")
           for m in im["methods"] if m["name"] == "canonicalize" and m["key"] in fx.fns]
    if len(pub) != 1:
        return
    reach = [fx.fns[k] for k in cg.reachable([pub[0]["key"]]) if fx.fns[k]["kind"] in ("Fn", "AssocFn") and not fx.fns[k].get("exp")]
    def tys(f):
        return [f["locals"][i]["ty"] for i in range(1, f["arg_count"] + 1)]
    conv = [f for f in reach if tys(f) == ["&serde_json::Value"] and f["locals"][0]["ty"].startswith("std::result::Result<interchange::cjson::")
            and (not f.get("impl_trait") or f.get("impl_trait") in ("std::convert::TryFrom", "std::convert::From"))]
    tree_ty = None
    if len(conv) == 1:
        CONVERT = conv[0]["path"]
        tree_ty = conv[0]["locals"][0]["ty"][len("std::result::Result<"):].split(",")[0]
    wr = [f for f in reach if tree_ty and tys(f) == ["&" + tree_ty, "&mut std::vec::Vec<u8>"]]
    if len(wr) == 1:
        WRITE = wr[0]["path"]
    priv = [f for f in reach if f["key"] != pub[0]["key"] and tys(f) == ["&serde_json::Value"] and "Vec<u8>" in f["locals"][0]["ty"]]
    if len(priv) == 1:
        CANON_PRIV = priv[0]["path"]


def bytes_const(c):
    if c is None:
        return None
    if "str" in c:
        return c["str"]
    r = c.get("repr", "")
    m = re.match(r'^b"(.*)"$', r)
    if m:
        return m.group(1)
    return None


# ---------------------------------------------------------------------------------------------
# signing / hashing sites
# ---------------------------------------------------------------------------------------------
def _site_body(ctx, f):
    """Body in which a signing site is analysed: the private-only REGION of the function (closures: plain body)."""
    if f["kind"] == "Closure":
        return body_of(ctx.fx, f["key"])
    return ctx.region(None, policy="private", key=f["key"])


def signing_sites(ctx):
    """[(kind, fn, body, bb, term, msg operand)] for every PrivateKey::sign, PublicKey::verify and the digest update of
    the key-id pre-image.  Module-private helpers are analysed inlined into their callers, not on their own."""
    from ..cg import vis_kind
    fx = ctx.fx
    out = []
    cg = ctx.cg
    callers = {}
    for k, sites in cg.sites.items():
        for (bi, t, tgt) in sites:
            callers.setdefault(tgt, set()).add(k)
    for f in fx.doc["fns"]:
        if f.get("exp") and not str(f.get("exp")).startswith("s:"):
            continue
        if f["path"].startswith(("crypto::PrivateKey::", "crypto::PublicKey::")):
            continue
        if f["kind"] != "Closure" and vis_kind(f) == "private" and not f.get("impl_trait") and callers.get(f["key"]):
            continue          # seen inlined in its caller(s)
        b = _site_body(ctx, f)
        for bi in sorted(b.reach):
            t = b.blocks[bi]["term"]
            if not t or t["k"] != "call":
                continue
            n = callee_name(t)
            origin = b.blocks[bi].get("origin", f["path"])
            if n == "crypto::PrivateKey::sign":
                out.append(("sign", f, b, bi, t, t["args"][1]))
            elif n == "crypto::PublicKey::verify":
                out.append(("verify", f, b, bi, t, t["args"][1]))
    # the key-id pre-image: digest updates in the function that constructs a KeyId from a digest
    for (pth, bb, exp, rv) in shared.agg_sites(fx, "crypto::KeyId"):
        f = fx.fn_opt(pth)
        if f is None or exp:
            continue
        fb = body_of(fx, f["key"])
        src = fb.trace(rv["ops"][0])
        if not (src and any(l.kind == "call" and callee_name(l.data[1]) == "data_encoding::Encoding::encode" for l in src)):
            continue
        b = ctx.region(None, policy="private", key=f["key"])
        for bi in sorted(b.reach):
            t = b.blocks[bi]["term"]
            if t and t["k"] == "call" and callee_name(t) == "ring::digest::Context::update":
                out.append(("keyid", f, b, bi, t, t["args"][1]))
    return out


CTX_REGION = None


def resolve_upvar_sources(fx, f, body, op):
    """msg_sources, but when the message is a captured variable of a closure continue in the parent."""
    res = shared.msg_sources(fx, body, op)
    extra_other = []
    for o in list(res["other"]):
        m = re.match(r"^param _1\.(\d+)", o) or re.match(r"^param [^ ]*\(_1\)\.(\d+)", o)
        if m and f["kind"] == "Closure":
            parent = fx.fns[f["parent"]]
            pb = CTX_REGION(parent) if CTX_REGION else body_of(fx, parent["key"])
            for blk in pb.blocks:
                for st in blk["stmts"]:
                    if st["k"] == "assign" and st["rv"].get("agg") == "closure" and st["rv"]["closure_key"] == f["key"]:
                        up = st["rv"]["ops"][int(m.group(1))]
                        r2 = resolve_upvar_sources(fx, parent, pb, up)
                        res["tobytes_roots"] |= r2["tobytes_roots"]
                        res["post"] += r2["post"]
                        res["canon"] += r2["canon"]
                        extra_other += r2["other"]
                        res["other"].remove(o)
                        break
    res["other"] += extra_other
    return res


def to_bytes_is_canonical(ctx, rule):
    """MetadataWrapper::to_bytes (and the Metadata trait impls) = Json::canonicalize(Json::serialize(self))."""
    fx = ctx.fx
    ok_all = True
    for f in fx.doc["fns"]:
        if not f["path"].endswith("::to_bytes") or f.get("exp"):
            continue
        if "Metadata" not in f["path"]:
            continue
        b = body_of(fx, f["key"])
        ctx.touch_fn(f)
        lv = b.trace({"l": 0, "p": []}, (OK, F0))
        okc = bool(lv)
        desc = []
        for lf in lv:
            desc.append(leaf_s(b, lf))
            if not (lf.kind == "call" and (callee_name(lf.data[1]) or "").endswith("DataInterchange::canonicalize") and lf.path == (OK, F0)):
                okc = False
                continue
            src = b.trace(lf.data[1]["args"][0])
            for s_ in src:
                if not (s_.kind == "call" and (callee_name(s_.data[1]) or "").endswith("DataInterchange::serialize")
                        and root_ids(b, s_.data[1]["args"][0]) == frozenset([("param", 1, ())])):
                    okc = False
                    desc.append("serialize arg: " + leaf_s(b, s_))
        ctx.inst(rule, "%s = canonicalize(serialize(self))" % f["path"], okc, "Ok payload <- {%s}" % ", ".join(desc), f["at"])
        ok_all = ok_all and okc
    return ok_all


def check_derivations(ctx, rule):
    """C09/D1 + C05/D2: every sign / verify / key-id site derives its bytes the same way."""
    fx = ctx.fx
    global CTX_REGION
    CTX_REGION = lambda pf: (body_of(fx, pf["key"]) if pf["kind"] == "Closure" else ctx.region(None, policy="private", key=pf["key"]))
    sites = signing_sites(ctx)
    chains = {}
    for (kind, f, b, bi, t, msg) in sites:
        r = resolve_upvar_sources(fx, f, b, msg)
        src = "canonical bytes of %s" % sorted(r["tobytes_roots"]) if r["tobytes_roots"] else ("Json::canonicalize(..)" if r["canon"] else "?")
        chain = tuple(r["post"])
        anchor = fx.root_of(f)["path"] if f["kind"] == "Closure" else f["path"]
        key = "%s in %s" % (kind, anchor)
        if key in chains:
            key = "%s#%d" % (key, bi)
        chains[key] = (chain, src, r["other"], t["at"], kind)
    for key, (chain, src, other, at, kind) in sorted(chains.items()):
        ok_src = (src != "?") and not other
        ctx.inst(rule, "message of %s comes from the canonical bytes only" % key, ok_src,
                 "source: %s; post-processing %s; other non-constant inputs %s" % (src, list(chain), other), at)
    distinct = {c[0] for c in chains.values()}
    ctx.inst(rule, "all signing, verifying and key-id sites post-process identically", len(distinct) == 1 and len(chains) >= 4,
             "%d site(s); post-processing chains: %s" % (len(chains), {k: list(v[0]) for k, v in chains.items()}))
    return chains


# ---------------------------------------------------------------------------------------------
# writer
# ---------------------------------------------------------------------------------------------
STRUCT_BYTES = {91: "[", 93: "]", 123: "{", 125: "}", 44: ",", 58: ":"}
STRUCT_WORDS = {"null", "true", "false"}


def writer_region(ctx):
    f = ctx.fx.fn_opt(WRITE)
    if f is None:
        return None
    return ctx.region(None, policy="private", key=f["key"])


def writer_emits(ctx):
    """Every site that appends to the output buffer in the REGION of Value::write (module-private helpers inlined,
    the recursive call stays a call): [(body, bb, term, class, detail)]
    class in {byte, word, number, escaped-string, other}."""
    b = writer_region(ctx)
    if b is None:
        return None
    out = []
    for i, t in b.calls():
        n = callee_name(t) or ""
        recv = (t.get("arg_tys") or [""])[0]
        if "Vec<u8>" not in recv:
            continue
        if n == "std::vec::Vec::push":
            c = const_int(b, t["args"][1])
            out.append((b, i, t, "byte" if c is not None else "other", c))
        elif n in ("std::iter::Extend::extend", "std::vec::Vec::extend_from_slice", "std::io::Write::write_all", "std::vec::Vec::append"):
            src = t["args"][1]
            lv = b.trace(src)
            consts = [bytes_const(l.data) for l in lv if l.kind == "const"]
            if lv and len(consts) == len(lv) and all(c is not None for c in consts):
                for c in consts:
                    out.append((b, i, t, "word", c))
                continue
            cls = set()
            for lf in lv:
                if lf.kind == "call":
                    cn = callee_name(lf.data[1]) or ""
                    if cn == "itoa::Buffer::format":
                        cls.add("number")
                    elif cn == "serde_json::to_string":
                        cls.add("escaped-string")
                    else:
                        cls.add("other:" + short(cn))
                else:
                    cls.add("other:" + leaf_s(b, lf))
            out.append((b, i, t, cls.pop() if len(cls) == 1 else "other", sorted(cls)))
    return out


def check_writer(ctx, rule_struct, rule_same_encoder):
    """C10/D3 + D5 (also C05/D3): structural bytes and the string encoder."""
    em = writer_emits(ctx)
    if em is None:
        ctx.bad(rule_struct, "writer", "interchange::cjson::Value::write not found (failing closed)")
        return
    bytes_seen, words_seen = set(), set()
    for (b, i, t, cls, detail) in em:
        if cls == "byte":
            bytes_seen.add(detail)
        elif cls == "word":
            words_seen.add(detail)
        elif cls in ("number", "escaped-string"):
            pass
        else:
            ctx.bad(rule_struct, "emit site in %s" % b.path, "appends bytes that are neither a structural constant, an itoa-formatted integer nor a "
                    "serde_json-escaped string: %s" % (detail,), t["at"])
    ctx.inst(rule_struct, "structural bytes", {STRUCT_BYTES.get(x, "?%s" % x) for x in bytes_seen} == set(STRUCT_BYTES.values()),
             "single bytes pushed: %s (expected exactly %s)" % (sorted(STRUCT_BYTES.get(x, "?%s" % x) for x in bytes_seen), sorted(STRUCT_BYTES.values())))
    ctx.inst(rule_struct, "literal words", words_seen == STRUCT_WORDS, "constant words appended: %s (expected %s)" % (sorted(words_seen), sorted(STRUCT_WORDS)))
    nums = [e for e in em if e[3] == "number"]
    strs = [e for e in em if e[3] == "escaped-string"]
    int_tys = set()
    for (b, i, t, cls, detail) in nums:
        for lf in b.trace(t["args"][1]):
            if lf.kind == "call":
                for l2 in b.trace(lf.data[1]["args"][-1]):
                    if l2.kind == "param" and l2.data == 1 and l2.path[:2] == (("v", "Number"), F0) and l2.path[-1:] == (F0,) and len(l2.path) == 4:
                        int_tys.add({"I64": "i64", "U64": "u64"}.get(l2.path[2][1], "?"))
                    else:
                        int_tys.add("?" + leaf_s(b, l2))
    ctx.inst(rule_struct, "numbers are itoa-formatted integers", len(nums) >= 1 and int_tys == {"i64", "u64"}, "%d itoa emit site(s) formatting %s" % (len(nums), sorted(int_tys)))
    # the escaped strings: value and key, same derivation  to_string(&serde_json::Value::String(x.clone()))
    derivs = []
    for (b, i, t, cls, detail) in strs:
        lv = b.trace(t["args"][1])
        d = []
        for lf in lv:
            ts = lf.data[1]
            src = b.trace(ts["args"][0])
            for s_ in src:
                if s_.kind == "agg" and s_.data[2].get("adt") == "serde_json::Value" and s_.data[2].get("variant") == "String":
                    inner = b.trace(s_.data[2]["ops"][0])
                    # the encoded text is an unmodified copy of the value's own string (trace summaries are all value-preserving)
                    d.append(("serde_json::Value::String", "own" if inner and all(l2.kind == "param" and l2.data == 1 for l2 in inner) else "?"))
                else:
                    d.append(("?", leaf_s(b, s_)))
        derivs.append((tuple(d), t["at"], lv))
    same = len({d[0] for d in derivs}) == 1 and len(derivs) >= 2 and all(x[0] == "serde_json::Value::String" and x[1] == "own" for d in derivs for x in d[0])
    ctx.inst(rule_same_encoder, "string values and object keys use the same encoder", same,
             "%d escaped-string emit site(s); derivations: %s" % (len(derivs), [d[0] for d in derivs]))
    return em


def check_convert(ctx, rule_num, rule_obj):
    """C10/D1, D2: sorted objects filled from every member; integers only."""
    fx = ctx.fx
    adt = fx.adts.get("interchange::cjson::Value")
    num = fx.adts.get("interchange::cjson::Number")
    obj_ty = None
    if adt:
        for v in adt["variants"]:
            if v["name"] == "Object":
                obj_ty = v["fields"][0]["ty"]
    ctx.inst(rule_obj, "object payload type", bool(obj_ty) and obj_ty.startswith("std::collections::BTreeMap<std::string::String,"),
             "Value::Object holds %s" % obj_ty)
    nv = {v["name"]: [f_["ty"] for f_ in v["fields"]] for v in (num["variants"] if num else [])}
    ctx.inst(rule_num, "number representation", nv == {"I64": ["i64"], "U64": ["u64"]}, "Number variants: %s" % nv)
    f = fx.fn_opt(CONVERT)
    if f is None:
        ctx.bad(rule_num, "convert", "interchange::cjson::convert not found (failing closed)")
        return
    b = ctx.region(None, policy="private", key=f["key"], ps=True)
    bodies = [b] + [body_of(fx, ck) for ck in fx.closures_of.get(f["key"], [])]
    for g in fx.doc["fns"]:
        # closures of inlined private helpers
        if g["kind"] == "Closure" and body_of(fx, g["key"]) not in bodies \
                and fx.root_of(g)["key"] in {blk.get("origin_key") for blk in b.blocks}:
            bodies.append(body_of(fx, g["key"]))
    cg = ctx.cg
    wf = fx.fn_opt(WRITE)
    seen = cg.reachable([f["key"]] + ([wf["key"]] if wf else []))
    floats = cg.ext_reach(seen, {"serde_json::Number::as_f64", "serde_json::Number::is_f64", "serde_json::Number::as_f32"})
    ctx.inst(rule_num, "no float access", not floats, "calls to float accessors reachable from convert/write: %s" % [
        (fx.fns[k]["path"], callee_name(t)) for (k, bi, t) in floats])
    casts = []
    for k in seen:
        g = fx.fns[k]
        if not g["path"].startswith("interchange::cjson"):
            continue
        for blk in g["blocks"]:
            for st in blk["stmts"]:
                if st["k"] == "assign" and st["rv"]["k"] == "cast" and st["rv"]["kind"] in ("FloatToInt", "IntToFloat", "FloatToFloat"):
                    casts.append((g["path"], st["at"]))
    ctx.inst(rule_num, "no float casts", not casts, "float casts in the canonicaliser: %s" % casts)
    acc = []
    for bd in bodies:
        acc += [(bd, i, t) for (i, t) in bd.calls() if (callee_name(t) or "").startswith("serde_json::Number::")]
    names = sorted({callee_name(t).split("::")[-1] for (bd, i, t) in acc})
    ctx.inst(rule_num, "integers taken by as_i64 / as_u64 only", names == ["as_i64", "as_u64"], "Number accessors used by convert: %s" % names)
    # every Number::I64 / U64 payload is the Some payload of the matching accessor
    num_ok = True
    n_sites = 0
    detail = []
    for bd in bodies:
        for i in sorted(bd.reach):
            for st in bd.blocks[i]["stmts"]:
                if st["k"] == "assign" and st["rv"].get("adt") == "interchange::cjson::Number":
                    n_sites += 1
                    want = {"I64": "as_i64", "U64": "as_u64"}[st["rv"]["variant"]]
                    lv = bd.trace(st["rv"]["ops"][0])
                    okp = bool(lv) and all((l.kind == "call" and callee_name(l.data[1]) == "serde_json::Number::" + want and l.path == (SOME, F0))
                                           or (l.kind == "param" and bd.fn["kind"] == "Closure") for l in lv)
                    if not okp:
                        num_ok = False
                        detail.append("%s <- {%s}" % (st["rv"]["variant"], ", ".join(leaf_s(bd, l) for l in lv)))
    # Number constructors passed as function items to Option::map (n.as_i64().map(Number::I64))
    for bd in bodies:
        for i, t in bd.calls_named("std::option::Option::map"):
            for a in t["args"][1:]:
                c = op_const(a)
                if c and c.get("fn", "").startswith("interchange::cjson::Number::"):
                    n_sites += 1
                    want = {"I64": "as_i64", "U64": "as_u64"}[c["fn"].split("::")[-1]]
                    src = def_call(bd, t["args"][0])
                    if not (src and callee_name(src[1]) == "serde_json::Number::" + want):
                        num_ok = False
                        detail.append("map(%s) applied to %s" % (c["fn"], callee_name(src[1]) if src else "?"))
    ctx.inst(rule_num, "I64 / U64 are built from as_i64 / as_u64 only", num_ok and n_sites >= 2, "%d construction site(s); problems: %s" % (n_sites, detail))
    # a number that is neither: an Err (or None -> ok_or Err) is produced on the number arm
    rejects = False
    for bd in bodies:
        for i, t in bd.calls_named("std::option::Option::ok_or_else", "std::option::Option::ok_or"):
            rejects = True
        for (e, tb, fa) in bd.all_edge_facts():
            if fa[0] == "variant" and fa[2] == "None":
                lv = bd.trace(fa[1])
                if lv and all(l.kind == "call" and callee_name(l.data[1]) in ("serde_json::Number::as_u64", "serde_json::Number::as_i64") for l in lv):
                    # the None edge must lead to an Err construction without producing a Number
                    r = bd.reach_between(tb) if bd.ps else bd.reach_from(tb)
                    makes_num = any(st["k"] == "assign" and st["rv"].get("adt") == "interchange::cjson::Number" for x in r for st in bd.blocks[x]["stmts"])
                    makes_err = any(st["k"] == "assign" and st["rv"].get("variant") == "Err" for x in r for st in bd.blocks[x]["stmts"])
                    if makes_err and (callee_name(lv[0].data[1]).endswith("as_u64") and not makes_num):
                        rejects = True
    ctx.inst(rule_num, "a number that is neither i64 nor u64 is rejected", rejects, "None of both accessors leads to an error: %s" % rejects)
    # objects: loop over the whole source object inserting every member
    ins = [(i, t) for (i, t) in b.calls_named("std::collections::BTreeMap::insert")]
    okobj = False
    detail = "no BTreeMap::insert in convert"
    for (i, t) in ins:
        kl = b.trace(t["args"][1])
        key_from_member = bool(kl) and all(lf.path[-1:] == (F0,) and
                                           ((lf.kind == "call" and callee_name(lf.data[1]) in ("serde_json::Map::iter", "std::iter::Iterator::next")) or
                                            (lf.kind == "param" and lf.data == 1 and lf.path[-2:-1] == (ELEM,))) for lf in kl)
        for lf in kl:
            if lf.kind == "call" and callee_name(lf.data[1]) == "serde_json::Map::iter":
                rr = root_ids(b, lf.data[1]["args"][0])
                if not all(k == "param" and i_ == 1 for (k, i_, p) in rr):
                    key_from_member = False
        loops = [l for l in b.loops().values() if i in l]
        whole = False
        no_exit = False
        if loops:
            lp = min(loops, key=len)
            hdr = [x for x in lp if b.blocks[x]["term"] and b.blocks[x]["term"]["k"] == "call" and callee_name(b.blocks[x]["term"]) == "std::iter::Iterator::next"]
            if hdr:
                ht = b.blocks[hdr[0]]["term"]
                src = b.trace(ht["args"][0])
                whole = bool(src) and not any(x in " ".join(lf.via) for lf in src for x in ("take", "skip", "filter", "step_by"))
            no_exit = not b.continuing_exits(lp)
        okobj = key_from_member and whole and no_exit
        detail = "member key <- {%s}; whole-object loop: %s; no early exit: %s" % (", ".join(leaf_s(b, l) for l in kl), whole, no_exit)
    if not ins:
        # obj.iter().map(|(k, v)| ..).collect::<Result<BTreeMap<_, _>, _>>(): every member, keyed by a copy of its own key
        for i, t in b.calls_named("std::iter::Iterator::collect", "std::iter::FromIterator::from_iter"):
            if "BTreeMap<" not in " ".join(t.get("generics", [])):
                continue
            src = b.trace(t["args"][0], (), lambda tt: callee_name(tt) == "std::iter::Iterator::map")
            whole = bool(src)
            keyok = bool(src)
            for l in src:
                if not (l.kind == "call" and callee_name(l.data[1]) == "std::iter::Iterator::map") or \
                        any(x in " ".join(l.via) for x in ("take", "skip", "filter", "step_by")):
                    whole = keyok = False
                    continue
                mt = l.data[1]
                it = b.trace(mt["args"][0])
                if not (it and all(x.kind == "call" and callee_name(x.data[1]) == "serde_json::Map::iter" and
                                   all(k == "param" and i_ == 1 for (k, i_, p) in root_ids(b, x.data[1]["args"][0])) and
                                   not any(y in " ".join(x.via) for y in ("take", "skip", "filter", "step_by")) for x in it)):
                    whole = False
                p = op_place(mt["args"][1])
                d = b.single_def(p["l"]) if p else None
                if d and d.kind == "assign" and d.node["rv"].get("agg") == "closure":
                    cr = ctx.region(None, policy="private", key=d.node["rv"]["closure_key"])
                    kl = cr.trace({"l": 0, "p": []}, (OK, F0, F0)) or cr.trace({"l": 0, "p": []}, (F0,))
                    if not (kl and all(x.kind == "param" and x.data == 2 and x.path[-1:] == (F0,) for x in kl)):
                        keyok = False
                else:
                    keyok = False
            okobj = whole and keyok
            detail = "collected from map(..) over the whole source object: %s; each pair is keyed by a copy of the member's own key: %s" % (whole, keyok)
    ctx.inst(rule_obj, "every member of the source object is inserted", okobj, detail)
    # arrays: a push loop without early exit, or map(convert) over the whole array collected
    pushes = [(i, t) for (i, t) in b.calls_named("std::vec::Vec::push")]
    okarr = False
    how = ""
    for (i, t) in pushes:
        loops = [l for l in b.loops().values() if i in l]
        if loops and not b.continuing_exits(min(loops, key=len)):
            okarr, how = True, "push loop without early exit"
    for i, t in b.calls_named("std::iter::Iterator::map"):
        fnc = [op_const(a) for a in t["args"][1:]]
        cf_ = fx.fn_opt(CONVERT)
        if any(c and (c.get("fn") == CONVERT or c.get("fn_args") == CONVERT or (cf_ is not None and c.get("fn_key") == cf_["key"])) for c in fnc):
            src = b.trace(t["args"][0])
            if src and not any(x in " ".join(l.via) for l in src for x in ("take", "skip", "filter", "step_by")):
                # consumed by collect (into Result<Vec<_>,_>) or by a for loop that pushes every element
                okarr, how = True, (how + "; " if how else "") + "map(convert) over the whole array"
    ctx.inst(rule_obj, "every element of the source array is converted", okarr, how or "no element-wise conversion of arrays found")


def check_public_canonicalize(ctx, rule):
    """C10/D5: the public canonicalize returns the writer's bytes unmodified; private canonicalize = write(convert(x))."""
    fx = ctx.fx
    f = fx.fn_opt(CANON_PRIV)
    if f is None:
        ctx.bad(rule, "canonicalize", "interchange::cjson::canonicalize not found")
        return
    b = body_of(fx, f["key"])
    ctx.touch_body(b)
    # a call is named by the function it resolves to (a conversion written as a trait impl is called as `TryFrom::try_from`)
    def _nm(t):
        g = fx.fns.get(t.get("resolved_key") or t.get("callee_key"))
        return g["path"] if g is not None else callee_name(t)
    calls = [_nm(t) for (i, t) in b.calls()]
    allowed = {CONVERT, WRITE, "std::vec::Vec::new", "std::ops::Try::branch", "std::ops::FromResidual::from_residual"}
    extra = [c for c in calls if c not in allowed]
    ctx.inst(rule, "private canonicalize = write(convert(value)) with no post-processing", not extra and CONVERT in calls and WRITE in calls,
             "calls made: %s" % calls, f["at"])
    for im in fx.impls:
        if not (im.get("trait") or "").endswith("DataInterchange"):
            continue
        for m in im["methods"]:
            if m["name"] != "canonicalize" or m["key"] not in fx.fns:
                continue
            g = fx.fns[m["key"]]
            gb = body_of(fx, g["key"])
            ctx.touch_body(gb)
            lv = gb.trace({"l": 0, "p": []}, (OK, F0))
            okp = bool(lv) and all(lf.kind == "call" and callee_name(lf.data[1]) in (CANON_PRIV, "interchange::DataInterchange::canonicalize") for lf in lv)
            ctx.inst(rule, "%s::canonicalize returns the canonicaliser's bytes" % im["self_ty"].split("::")[-1], okp,
                     "Ok payload <- {%s}" % ", ".join(leaf_s(gb, l) for l in lv), g["at"])


def check_no_ambient(ctx, rule):
    """C10/D4: nothing reachable from canonicalize iterates an unordered map or reads ambient state."""
    from .C13 import AMBIENT, is_unordered_coll, UNORDERED_SRC
    fx, cg = ctx.fx, ctx.cg
    f = fx.fn_opt(CANON_PRIV)
    if f is None:
        return
    seen = cg.reachable([f["key"]])
    amb = cg.ext_reach(seen, AMBIENT)
    ctx.inst(rule, "no ambient reads", not amb, "ambient reads reachable from canonicalize: %s" % [(fx.fns[k]["path"], callee_name(t)) for (k, bi, t) in amb])
    uno = []
    for k in seen:
        for (bi, t) in cg.ext.get(k, []):
            n = callee_name(t) or ""
            if n.split("::")[-1] in UNORDERED_SRC and is_unordered_coll((t.get("arg_tys") or [""])[0]):
                uno.append((fx.fns[k]["path"], n))
    ctx.inst(rule, "no unordered iteration", not uno, "HashMap/HashSet iterations reachable from canonicalize (%d functions): %s" % (len(seen), uno))


# ---------------------------------------------------------------------------------------------
# un-escaper (C11)
# ---------------------------------------------------------------------------------------------
def check_olpc(ctx, chains, rule_net, rule_ctx):
    """C11/D1, D2: the net escape set of the signed bytes is exactly {quote, backslash}."""
    fx = ctx.fx
    SERDE_JSON_ESCAPES = {'"', "\\", "b", "f", "n", "r", "t", "u"}     # escape letters serde_json can emit
    for key, (chain, src, other, at, kind) in sorted(chains.items()):
        repl = [c for c in chain if c.startswith("replace")]
        local = [c for c in chain if c.startswith("local:")]
        if repl:
            ctx.bad(rule_ctx, "context-free un-escaping in %s" % key, "the escaped text is post-processed with a textual %s: an escaped backslash "
                    "followed by a letter is indistinguishable from an escape sequence, and only the listed sequence is undone" % repl, at)
            continue
        if not local:
            ctx.bad(rule_net, "un-escaping in %s" % key, "signed bytes are the serde_json-escaped canonical text (escape set {\" \\ U+0000-U+001F}), "
                    "the reference form escapes only {\" \\}", at)
            continue
        for lc in local:
            path = lc[len("local:"):]
            g = fx.fn_opt(path)
            if g is None:
                ctx.bad(rule_net, "un-escaper " + path, "not found")
                continue
            gb = ctx.region(None, policy="private", key=g["key"], ps=True)
            handled = set()
            for (e, tb, f) in gb.all_edge_facts():
                if f[0] == "int":
                    pass
            for i in sorted(gb.reach):
                t = gb.blocks[i]["term"]
                if t and t["k"] == "switch" and t["discr_ty"] == "char":
                    for v, tb in t["arms"]:
                        handled.add(chr(v))
                if t and t["k"] == "switch":
                    # comparisons `c == 'x'` lower to Eq + switch on bool
                    pass
            for (e, tb, f) in gb.all_edge_facts():
                c = as_cmp(f)
                if c and c[0] in ("Eq", "Ne"):
                    for o in (c[1], c[2]):
                        cc = op_const(o)
                        if cc and cc.get("ty") == "char" and "int" in cc:
                            handled.add(chr(cc["int"]))
            need = SERDE_JSON_ESCAPES
            missing = need - handled
            ctx.inst(rule_net, "un-escaper %s handles every escape serde_json emits (%s)" % (path, key.split(" in ")[0]), not missing,
                     "escape letters dispatched on: %s; missing: %s" % (sorted(handled), sorted(missing)), g["at"])
            # quote and backslash stay escaped: from every edge on which the un-escaped character is known to be
            # a quote (resp. a backslash) the raw push is reachable only through a push of a backslash
            bs_push = [i for i, t in gb.calls_named("std::string::String::push")
                       if (op_const(t["args"][1]) or {}).get("ty") == "char" and (op_const(t["args"][1]) or {}).get("int") == 92]
            raw_push = [(i, t) for i, t in gb.calls_named("std::string::String::push") if op_const(t["args"][1]) is None]
            pairs = [i for i, t in gb.calls_named("std::string::String::push_str") if (op_const(t["args"][1]) or {}).get("str") in ('\\"', "\\\\")]
            keep = True
            why = []
            for q in ('"', "\\"):
                eq_edges = []
                for (e, tb, fa) in gb.all_edge_facts():
                    cm = as_cmp(fa)
                    if cm and cm[0] == "Eq":
                        for o in (cm[1], cm[2]):
                            cc = op_const(o)
                            if cc and cc.get("ty") == "char" and cc.get("int") == ord(q):
                                eq_edges.append((e, tb))
                    if fa[0] == "int" and fa[2] == ord(q) and gb.blocks[e[0]]["term"].get("discr_ty") == "char":
                        eq_edges.append((e, tb))
                    if fa[0] == "intin" and ord(q) in fa[2] and set(fa[2]) <= {34, 92} and gb.blocks[e[0]]["term"].get("discr_ty") == "char":
                        eq_edges.append((e, tb))        # `'"' | '\\' => ..`: one edge for both characters
                if not eq_edges:
                    keep = False
                    why.append("no test for %r" % q)
                    continue
                guarded = False
                for (e, tb) in eq_edges:
                    r = gb.reach_between(tb, removed_blocks=set(bs_push) | set(pairs) | {x for x in gb.loops()})
                    leak = [i for (i, t) in raw_push if i in r]
                    # an edge that leads to a constant two-character push (or to the backslash push) is fine;
                    # the dispatch arm that merely selects the character is followed by the `== q` test later
                    if not leak:
                        guarded = True
                if not guarded:
                    keep = False
                    why.append("%r can reach the raw push without a backslash being emitted first" % q)
            ctx.inst(rule_net, "un-escaper %s keeps quote and backslash escaped (%s)" % (path, key.split(" in ")[0]), keep,
                     "for both characters some `== char` edge forces a backslash before the character is written: %s %s" % (keep, why), g["at"])
            # every backslash of the input is interpreted: the input character is copied verbatim only when it is not a backslash
            okraw = True
            detail = []
            n_input = 0
            for (i, t) in raw_push:
                lv = gb.trace(t["args"][1])
                from_input = bool(lv) and all(lf.kind == "call" and (
                    (callee_name(lf.data[1]) == "std::iter::Iterator::next" and lf.path == (SOME, F0)) or
                    (callee_name(lf.data[1]) in ("core::str::chars", "core::str::bytes", "core::str::char_indices") and "Iterator::next" in lf.via)) for lf in lv)
                if not from_input:
                    continue
                n_input += 1
                ne = False
                for (e, fa) in gb.facts_dominating(i):
                    # `match c { '\\' => .., other => push(other) }`: the fall-through edge of a switch on the character
                    if fa[0] == "intnot" and 92 in fa[2] and gb.blocks[e[0]]["term"].get("discr_ty") == "char":
                        ne = True
                    cm = as_cmp(fa)
                    if cm and cm[0] == "Ne":
                        for o in (cm[1], cm[2]):
                            cc = op_const(o)
                            if cc and cc.get("ty") == "char" and cc.get("int") == 92:
                                ne = True
                if not ne:
                    okraw = False
                    detail.append(t["at"])
            ctx.inst(rule_net, "un-escaper %s copies an input character verbatim only if it is not a backslash (%s)" % (path, key.split(" in ")[0]), okraw and n_input >= 1,
                     "verbatim copies of the scanned character not dominated by `c != '\\\\'`: %s" % detail, g["at"])
            # a backslash is written only to re-escape a decoded quote / backslash: with every edge removed on which a *decoded*
            # character (not the scanned input character) is known to be `"` or `\`, no write of a backslash is reachable
            hdrs = [x for x in gb.loops() if False]
            scan_calls = set()
            for lp in gb.loops().values():
                for x in lp:
                    tt = gb.blocks[x]["term"]
                    if tt and tt["k"] == "call" and callee_name(tt) == "std::iter::Iterator::next" and \
                            all(gb.dom_plain(x, e2[0]) for (e2, tb2) in gb.back_edges() if tb2 in lp and gb.loop_blocks(tb2) == lp):
                        scan_calls.add(x)
            dec_edges = set()
            n_scan_tests = 0
            for (e, tb, fa) in gb.all_edge_facts():
                cm = as_cmp(fa)
                if fa[0] == "intin" and set(fa[2]) <= {34, 92}:
                    cm = ("Eq", fa[1], {"const": {"int": fa[2][0], "ty": "int", "repr": str(fa[2][0])}})
                if not (cm and cm[0] == "Eq"):
                    continue
                for (u, v) in ((cm[1], cm[2]), (cm[2], cm[1])):
                    cc = op_const(v)
                    if cc and cc.get("int") in (34, 92) and op_const(u) is None:
                        lv = gb.trace(u, (), lambda tt: callee_name(tt) == "std::iter::Iterator::next")
                        scanned = bool(lv) and all(l.kind == "call" and l.data[0] in scan_calls and l.path == (SOME, F0) for l in lv)
                        if scanned:
                            n_scan_tests += 1
                        else:
                            dec_edges.add(e)
            def has_bs(op):
                c = op_const(op)
                if c is None:
                    # a value that is a backslash (or contains one) whatever path was taken; the decoded character itself, which
                    # may happen to be a backslash, is the raw write examined above
                    lv = gb.trace(op)
                    return bool(lv) and all(l.kind == "const" and (("str" in l.data and "\\" in l.data["str"]) or l.data.get("int") == 92) for l in lv)
                return ("str" in c and "\\" in c["str"]) or (c.get("ty") == "char" and c.get("int") == 92)
            bs_sites = [(i, t) for (i, t) in gb.calls_named("std::string::String::push", "std::string::String::push_str", "std::string::String::insert",
                                                          "std::string::String::insert_str", "std::iter::Extend::extend")
                        if len(t["args"]) >= 2 and has_bs(t["args"][-1])]
            r = gb.reach_between(0, removed_edges=dec_edges)
            stray = [t["at"] for (i, t) in bs_sites if i in r]
            ctx.inst(rule_net, "un-escaper %s writes a backslash only to re-escape a decoded quote or backslash (%s)" % (path, key.split(" in ")[0]),
                     bool(bs_sites) and not stray and n_scan_tests >= 1,
                     "%d write(s) of a backslash; reachable without a `decoded == quote / backslash` edge: %s (the scanner's own `input == backslash` "
                     "test, recognised %d time(s), is not such an edge)" % (len(bs_sites), stray, n_scan_tests), g["at"])
            # context sensitivity: the un-escaper consumes the text sequentially (one loop driven by chars().next())
            loops = gb.loops()
            seq = any(gb.blocks[h]["term"] and callee_name(gb.blocks[h]["term"]) == "std::iter::Iterator::next" for h in loops) or \
                any(callee_name(gb.blocks[x]["term"]) == "std::iter::Iterator::next" for l in loops.values() for x in l if gb.blocks[x]["term"] and gb.blocks[x]["term"]["k"] == "call")
            uses_replace = any((callee_name(t) or "").endswith("::replace") for (i, t) in gb.calls())
            ctx.inst(rule_ctx, "un-escaper %s is a sequential scanner, not a textual replace (%s)" % (path, key.split(" in ")[0]), seq and not uses_replace,
                     "driven by an iterator over the characters: %s; uses str::replace: %s" % (seq, uses_replace), g["at"])


def check_codec(ctx, rule):
    """C09/D3: one hex alphabet for everything that is written and read."""
    fx = ctx.fx
    enc, dec, statics = [], [], set()
    for f in fx.doc["fns"]:
        if f.get("exp") and not str(f["exp"]).startswith("s:"):
            continue
        b = None
        for bi, blk in enumerate(f["blocks"]):
            t = blk["term"]
            if not t or t["k"] != "call" or blk["cleanup"]:
                continue
            n = callee_name(t) or ""
            if n.startswith("data_encoding::Encoding::") and n.split("::")[-1] in ("encode", "decode", "encode_append", "decode_mut"):
                b = b or body_of(fx, f["key"])
                toks = {(lf.data.get("static") or lf.data.get("uneval") or "?") if lf.kind == "const" else "?" for lf in b.trace(t["args"][0])}
                statics |= toks
                (enc if "encode" in n.split("::")[-1] else dec).append((f["path"], sorted(toks), t["at"]))
    ctx.inst(rule, "a single codec alphabet", statics == {"data_encoding::HEXLOWER"}, "codec statics used: %s (%d encode sites, %d decode sites)" % (
        sorted(statics), len(enc), len(dec)))
    ctx.inst(rule, "both directions present", bool(enc) and bool(dec), "encode sites: %s; decode sites: %s" % (
        sorted({e[0] for e in enc}), sorted({d[0] for d in dec})))


def check_member_order(ctx, rule):
    """Members and elements leave the writer in the order their container iterates them (a BTreeMap<String, _>: code point
    order; a Vec: document order): between the container held by `self` and the recursive write there is nothing but plain
    iteration - no collect-and-sort, no reversal, no re-keying."""
    fx = ctx.fx
    wf = fx.fn_opt(WRITE)
    if wf is None:
        ctx.bad(rule, "member order", "canonical writer not found (failing closed)")
        return
    b = ctx.region(None, policy="private", key=wf["key"], ps=True)
    PLAIN = {"Iterator::next", "IntoIterator::into_iter", "BTreeMap::iter", "slice::iter", "Vec::iter", "Deref::deref", "Iterator::enumerate", "Vec::as_slice",
             "Iterator::by_ref", "Iterator::peekable", "Peekable::next", "BTreeMap::into_iter"}
    n = 0
    for (i, t) in b.calls_named(WRITE):
        lv = b.trace(t["args"][0])
        n += 1
        ok = bool(lv) and all(l.kind == "param" and l.data == 1 and l.path[:1] in ((("v", "Object"),), (("v", "Array"),)) and set(l.via) <= PLAIN for l in lv)
        kind = "object members" if any(l.path[:1] == (("v", "Object"),) for l in lv) else "array elements"
        ctx.inst(rule, "%s are written in the container's own order" % kind, ok,
                 "written value <- {%s}" % ", ".join("%s via %s" % (leaf_s(b, l).split("  via")[0], list(l.via)) for l in lv), t["at"])
    if n < 2:
        ctx.bad(rule, "member order", "expected the recursive write of array elements and of object members, found %d recursive call(s)" % n)
