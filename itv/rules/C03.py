"""C03 - artifact rules are enforced exactly as the in-toto specification prescribes."""
from ..core import (Body, callee_name, norm, op_const, op_place, proj_path, as_cmp, as_pred, leaf_s, OK, ERR, F0, F1, SOME, ELEM, SWAP)
from ..guards import root_ids, body_of, def_call, const_int, dominating_preds, dominating_variants

EXPLANATION = (
    "Rules on the path-sensitive REGION super-graph of rulelib::apply_rules_on_link (the MATCH helper and the pattern "
    "matcher inlined). D1: in the MATCH helper an artifact is inserted into the consumed set only on an edge where the "
    "Ok payload of the matcher applied to that artifact (prefix-stripped) and the rule's pattern is `true`; results of the "
    "matcher are never defaulted. D2: the source prefix is stripped with a match whose None edge cannot reach the "
    "insertion. D3: for every rule kind that interprets its argument as a pattern, the pattern is compiled in the per-rule "
    "loop, its Err outcome is propagated to an Err return, and the Ok outcome dominates the rule dispatch. D4: the consumed "
    "set per rule kind is the specification's table (CREATE: filtered n created, DELETE: filtered n deleted, MODIFY: "
    "filtered n modified, ALLOW: filtered, REQUIRE: none + Err if the path is not in the queue, DISALLOW: none + Err if "
    "filtered is non-empty, MATCH: result of the helper), with created = products \\\\ materials, deleted = materials \\\\ "
    "products, and the queue is replaced by queue \\\\ consumed; the rule loops have no early exit. D5: MATCH consumes only "
    "under equality of the source artifact's digests with those found under the destination-prefixed path.")
DECIDED = ["D1 pattern discipline (no consumption without a positive match)", "D2 source-prefix discipline", "D3 an uninterpretable pattern is fatal",
           "D4 rule-kind table and queue update", "D5 digest equality for MATCH"]
UNDECIDED = ["equality of the verdict with the specification's algorithm for every rule list and artifact set (glob semantics, path joining, interaction of rule order with the sets)"]
TRUSTED = ["glob::Pattern matching semantics", "BTreeSet set operations"]
ASSUMPTIONS = []
FLOORS = {"C03/D1": 2, "C03/D2": 1, "C03/D3": 3, "C03/D4": 11, "C03/D5": 1}

PUBLIC_ENTRY = "verifylib::in_toto_verify"
GLOB_MATCHERS = {"glob::Pattern::matches", "glob::Pattern::matches_path", "glob::Pattern::matches_with"}
MATCHERS = set(GLOB_MATCHERS)      # + local wrappers found by role (find_matchers)
RULE_KINDS = {"Create", "Delete", "Modify", "Allow", "Require", "Disallow", "Match"}


def find_engine(ctx):
    """The rule engine, by role: the hand-written function reachable from in_toto_verify that dispatches on the most kinds of
    ArtifactRule (it is crate-private: its name is nobody's API)."""
    fx, cg = ctx.fx, ctx.cg
    ent = fx.fn_opt(PUBLIC_ENTRY)
    if ent is None:
        return None
    best = None
    for k in cg.reachable([ent["key"]]):
        f = fx.fns[k]
        if f.get("exp") or f.get("impl_trait") or f["kind"] not in ("Fn", "AssocFn", "Closure"):
            continue
        kinds = set()
        for blk in f["blocks"]:
            for st in blk["stmts"]:
                if st["k"] == "assign" and st["rv"]["k"] == "discr" and (st["rv"].get("adt") or "").endswith("rule::ArtifactRule"):
                    t = blk["term"]
                    if t and t["k"] == "switch":
                        names = dict((v, n) for v, n in st["rv"].get("variants", []))
                        kinds |= {names.get(v) for v, _ in t["arms"]}
        kinds &= RULE_KINDS
        # the engine decides what each rule consumes: its dispatch sits among set operations on the artifact queue
        region_calls = {callee_name(b["term"]) for b in f["blocks"] if b["term"] and b["term"]["k"] == "call" and not b["cleanup"]}
        if not any((c or "").startswith("std::collections::BTreeSet::") for c in region_calls):
            continue
        if len(kinds) >= 4 and (best is None or len(kinds) > best[0]):
            best = (len(kinds), fx.root_of(f) if f["kind"] == "Closure" else f)    # a dispatch written in a local closure belongs to its function
    if not best:
        return None
    # the dispatch may live in a private helper (or a method of a private struct): the engine is the function of that module
    # through which the other modules reach it
    cur = best[1]
    mod = cur["path"].split("::")[0] + "::"
    for _ in range(6):
        callers = {fx.root_of(fx.fns[ck])["key"] for ck in fx.fns for (cbb, ct, tgt) in cg.sites.get(ck, ()) if tgt == cur["key"]}
        callers.discard(cur["key"])
        if len(callers) == 1:
            c = fx.fns[next(iter(callers))]
            if c["path"].startswith(mod) and not c.get("exp"):
                cur = c
                continue
        break
    return cur


def find_matchers(fx):
    """Local wrappers of the glob matcher, by role: local functions returning Result<bool, _> / bool whose body compiles a
    glob pattern from one argument and applies it to another."""
    out = set()
    for f in fx.doc["fns"]:
        if f.get("exp") or f["kind"] not in ("Fn", "AssocFn"):
            continue
        names = {callee_name(b["term"]) for b in f["blocks"] if b["term"] and b["term"]["k"] == "call" and not b["cleanup"]}
        if "glob::Pattern::new" in names and names & GLOB_MATCHERS and "bool" in f["locals"][0]["ty"]:
            out.add(f["path"])
    return out
DEFAULTING = {"std::result::Result::unwrap_or", "std::result::Result::unwrap_or_default", "std::result::Result::unwrap_or_else",
              "std::result::Result::ok", "std::result::Result::is_ok", "std::result::Result::is_err", "std::result::Result::unwrap", "std::result::Result::expect"}


class _Tagged:
    """ctx proxy that tags every instance key with the sibling instance of the rule loop it was judged in."""
    def __init__(self, ctx, tag):
        self._ctx, self._tag = ctx, tag

    def __getattr__(self, name):
        return getattr(self._ctx, name)

    def inst(self, rule, key, ok, detail, at=None, extra=None):
        return self._ctx.inst(rule, key + self._tag, ok, detail, at, extra)

    def ok(self, rule, key, detail, at=None, extra=None):
        return self._ctx.inst(rule, key + self._tag, True, detail, at, extra)

    def bad(self, rule, key, detail, at=None, extra=None):
        return self._ctx.inst(rule, key + self._tag, False, detail, at, extra)


def sibling_instances(b):
    """Calls of the engine's own body that were inlined more than once with the rule dispatch inside (`run(materials ..)`,
    `run(products ..)` instead of one loop over both lists): [(root block, instance id, call site)]."""
    has_dispatch = set()
    for blk in b.blocks:
        if any(st["k"] == "assign" and st["rv"]["k"] == "discr" and (st["rv"].get("adt") or "").endswith("rule::ArtifactRule") for st in blk["stmts"]):
            parts = (blk.get("inst") or "").split("/")
            if len(parts) >= 2:
                has_dispatch.add("/" + parts[1])
    groups = {}
    for x in b.fn.get("inlined", []):
        if x["inst"].count("/") == 1 and x["inst"] in has_dispatch:
            groups.setdefault(x["callee"], []).append((x["at_block"], x["inst"], x["site"]))
    return [m for g in groups.values() if len(g) >= 2 for m in g]


def run(ctx):
    fx = ctx.fx
    f = find_engine(ctx)
    if f is None:
        ctx.bad("C03/D1", "anchor", "no function reachable from in_toto_verify dispatches on the kinds of ArtifactRule: the rule engine was not found (failing closed)")
        return
    ctx.note("rule engine located by role: %s" % f["path"])
    wrappers = find_matchers(fx)
    MATCHERS.clear()
    MATCHERS.update(GLOB_MATCHERS | wrappers)
    b0 = ctx.region(None, key=f["key"], ps=True)
    sib = sibling_instances(b0)
    if not sib:
        return run_on(ctx, f, b0, wrappers)
    # the rule loop is instantiated once per list (materials, products): judge each instance on its own, with the sibling
    # calls left un-inlined
    for (blk, inst, site) in sorted(sib):
        others = frozenset(x[0] for x in sib if x[0] != blk)
        bv = ctx.region(None, key=f["key"], ps=True, skip_root_sites=others)
        run_on(_Tagged(ctx, " [instance %s]" % inst.rsplit("@", 1)[0].lstrip("/") + "#%d" % (sorted(x[0] for x in sib).index(blk) + 1)), f, bv, wrappers)


def table_form(b, coll_src, on_match_arm):
    """The CREATE / DELETE / MODIFY table written as a map from path to a change kind (a local fieldless enum) that the arms
    consult element by element.  Each kind is recognised by the guards under which it is entered, not by its name:
      created  - key taken from the products, entered iff the materials have no entry for it;
      deleted  - key taken from the materials, entered iff the products have no entry for it;
      modified - key present on both sides, entered iff the two digests differ.
    -> {"kinds": {variant: kind}, "arms": {rule kind: change kind}} or None if no such table exists."""
    GET = ("std::collections::BTreeMap::get", "std::collections::HashMap::get")
    HAS = ("std::collections::BTreeMap::contains_key", "std::collections::HashMap::contains_key")
    NEXT = "std::iter::Iterator::next"
    loops = list(b.loops().values())
    def inner_loop(i):
        ls = [l for l in loops if i in l]
        return min(ls, key=len) if ls else None
    def next_of(op):
        """the loop element an operand is (derived from): block of the Iterator::next call, or None"""
        lv = b.trace(op, (), lambda t: callee_name(t) == NEXT, {"__flow_all__": lambda t: callee_name(t) != NEXT, "__agg_all__": True})
        bbs = {l.data[0] for l in lv if l.kind == "call" and callee_name(l.data[1]) == NEXT}
        return next(iter(bbs)) if len(bbs) == 1 and all(l.kind in ("call", "const") for l in lv) else None
    def unit_variant(op):
        lv = b.trace(op)
        if len(lv) == 1 and lv[0].kind == "agg" and lv[0].data[2].get("agg") == "adt" and not lv[0].data[2].get("ops"):
            return (lv[0].data[2].get("adt"), lv[0].data[2].get("variant"))
        if len(lv) == 1 and lv[0].kind == "const" and lv[0].data.get("repr"):
            return ("const", lv[0].data.get("repr"))
        return None
    def lookup(t):
        """(origin of the map looked into, loop element used as the key) of a get / contains_key call"""
        return frozenset(coll_src(root_ids(b, t["args"][0]))), next_of(t["args"][1])
    tables = {}
    for (i, t) in b.calls_named("std::collections::BTreeMap::insert", "std::collections::HashMap::insert"):
        if len(t["args"]) != 3 or on_match_arm(i):
            continue
        v = unit_variant(t["args"][2])
        lp = inner_loop(i)
        if v is None or lp is None:
            continue
        key_nx = next_of(t["args"][1])
        if key_nx is None or key_nx not in lp:
            continue
        nt = b.blocks[key_nx]["term"]
        key_org = frozenset(coll_src(root_ids(b, nt["args"][0]))) if nt["args"] else frozenset()
        absent, present, differs, unknown = set(), set(), False, []
        for (e, fa) in b.facts_dominating(i):
            if e[0] not in lp:
                continue
            if fa[0] == "variant" and fa[2] in ("Some", "None"):
                lv = b.trace(fa[1], (), lambda t2: callee_name(t2) in GET or callee_name(t2) == NEXT)
                if lv and all(l.kind == "call" and l.data[0] == key_nx for l in lv) and fa[2] == "Some":
                    continue            # the loop's own `Some(element)` edge
                if lv and all(l.kind == "call" and callee_name(l.data[1]) in GET for l in lv):
                    for l in lv:
                        org, knx = lookup(l.data[1])
                        if knx != key_nx:
                            unknown.append("lookup with another key")
                        (present if fa[2] == "Some" else absent).add(org)
                    continue
                unknown.append("variant test of something else")
                continue
            if fa[0] == "bool" and fa[1][0] == "call" and callee_name(fa[1][2]) in HAS:
                org, knx = lookup(fa[1][2])
                if knx != key_nx:
                    unknown.append("contains_key with another key")
                (present if fa[2] else absent).add(org)
                continue
            cm = as_cmp(fa)
            if cm and cm[0] == "Ne":
                sides = []
                for o in (cm[1], cm[2]):
                    lv = b.trace(o, (), lambda t2: callee_name(t2) in GET or callee_name(t2) == NEXT)
                    if lv and all(l.kind == "call" and callee_name(l.data[1]) in GET and lookup(l.data[1])[1] == key_nx for l in lv):
                        sides.append(("get", frozenset().union(*[lookup(l.data[1])[0] for l in lv])))
                    elif lv and all(l.kind == "call" and l.data[0] == key_nx for l in lv):
                        sides.append(("elem", key_org))
                    else:
                        sides.append(("?", None))
                if all(sd[0] != "?" for sd in sides) and {sd[1] for sd in sides} == {frozenset(["materials"]), frozenset(["products"])}:
                    differs = True
                    continue
                unknown.append("comparison of something else")
                continue
            unknown.append(fa[0])
        M, P = frozenset(["materials"]), frozenset(["products"])
        kind = None
        if not unknown and not b.continuing_exits(lp):
            if key_org == P and absent == {M} and not present and not differs:
                kind = "created"
            elif key_org == M and absent == {P} and not present and not differs:
                kind = "deleted"
            elif differs and not absent and ((key_org == P and present == {M}) or (key_org == M and present == {P})):
                kind = "modified"
        troot = frozenset(root_ids(b, t["args"][0]))
        tables.setdefault(troot, {}).setdefault(v, set()).add(kind)
    best = None
    for troot, kinds in tables.items():
        flat = {v: (next(iter(ks)) if len(ks) == 1 else None) for v, ks in kinds.items()}
        if len(flat) >= 2 and (best is None or len(flat) > len(best[1])):
            best = (troot, flat)
    if best is None:
        return None
    troot, kinds = best
    arms = {}
    for (i, t) in b.calls_named("std::collections::BTreeSet::insert"):
        if on_match_arm(i):
            continue
        arm = None
        for (e, fa) in b.facts_dominating(i):
            if fa[0] == "variant" and (fa[3] or "").endswith("ArtifactRule"):
                arm = fa[2]
        lp = inner_loop(i)
        if arm not in ("Create", "Delete", "Modify") or lp is None:
            continue
        el_nx = next_of(t["args"][1])
        found, other = None, False
        for (e, fa) in b.facts_dominating(i):
            if e[0] not in lp:
                continue
            if fa[0] == "variant" and fa[2] == "Some":
                lv = b.trace(fa[1], (), lambda t2: callee_name(t2) == NEXT)
                if lv and all(l.kind == "call" and l.data[0] == el_nx for l in lv):
                    continue
            cm = as_cmp(fa)
            if cm and cm[0] == "Eq":
                got, want = None, None
                for o in (cm[1], cm[2]):
                    lv = b.trace(o, (), lambda t2: callee_name(t2) in GET)
                    if lv and all(l.kind == "call" and callee_name(l.data[1]) in GET and frozenset(root_ids(b, l.data[1]["args"][0])) == troot
                                  and next_of(l.data[1]["args"][1]) == el_nx for l in lv):
                        got = True
                    elif len(lv) == 1 and lv[0].kind == "agg" and lv[0].data[2].get("variant") == "Some" and lv[0].data[2].get("ops"):
                        want = unit_variant(lv[0].data[2]["ops"][0])
                if got and want is not None:
                    found = want
                    continue
            other = True
        if found is not None and not other and el_nx is not None:
            arms[arm] = kinds.get(found) if arms.get(arm, kinds.get(found)) == kinds.get(found) else None
    return {"kinds": {("%s::%s" % (v[0].split("::")[-1], v[1])): k for v, k in kinds.items()}, "arms": arms}


def run_on(ctx, f, b, wrappers):
    fx = ctx.fx
    # every function / closure of the rule engine's module (for defaulting scans)
    mod = f["path"].rsplit("::", 1)[0] + "::"
    eng = [g for g in fx.doc["fns"] if g["path"].startswith(mod)]
    # ---- D1a no defaulted matcher result anywhere in the rule engine
    n_m = 0
    for g in eng + [fx.fn_opt(w) for w in sorted(wrappers)]:
        if g is None:
            continue
        gb = body_of(fx, g["key"])
        for i, t in gb.calls():
            if callee_name(t) not in wrappers:
                continue
            n_m += 1
            # consumers of the Result
            bad = []
            for j, t2 in gb.calls():
                if callee_name(t2) in DEFAULTING:
                    dc = def_call(gb, t2["args"][0])
                    if dc and dc[0] == i:
                        bad.append(callee_name(t2).split("::")[-1])
            ctx.inst("C03/D1", "matcher result in %s is matched, not defaulted" % g["path"], not bad,
                     "Result<bool> of the matcher wrapper %s is consumed by %s" % (callee_name(t), bad or "a match"), t["at"])
    # ---- the MATCH helper's consumed insert
    ins = [(i, t) for (i, t) in b.calls_named("std::collections::BTreeSet::insert")
           ]
    ins = [(i, t) for (i, t) in ins if any((fa[0] == "variant" and fa[2] == "Match" and (fa[3] or "").endswith("ArtifactRule")) for (e, fa) in b.facts_dominating(i))]
    if len(ins) != 1:
        ctx.bad("C03/D1", "MATCH consumption", "expected exactly one insertion into the consumed set on the MATCH arm, found %d" % len(ins))
    else:
        ii, it = ins[0]
        art = root_ids(b, it["args"][1])
        facts = b.facts_dominating(ii)
        # D1b: dominated by `Ok(true)` of a matcher call
        pos = []
        for (e, fa) in facts:
            if fa[0] in ("intnot", "int") and ((fa[0] == "intnot" and 0 in fa[2]) or (fa[0] == "int" and fa[2] == 1)):
                pl = op_place(fa[1])
                if pl is None:
                    continue
                lv = b.trace(pl)
                if lv and all(l.kind == "call" and callee_name(l.data[1]) in MATCHERS and l.path == (OK, F0) for l in lv):
                    pos.append((e, lv[0].data[1], lv[0].data[0]))
                elif lv and all(l.kind == "call" and callee_name(l.data[1]) in ("glob::Pattern::matches",) and not l.path for l in lv):
                    pos.append((e, lv[0].data[1], lv[0].data[0]))
            if fa[0] == "bool" and fa[2] is True and fa[1][0] == "call" and callee_name(fa[1][2]) in ("glob::Pattern::matches",):
                pos.append((e, fa[1][2], fa[1][1]))
        okm = False
        detail = "no dominating edge on which the matcher's Ok payload is true: an artifact that does not match the pattern can be consumed"
        for (e, mt, mbb) in pos:
            # receiver derives from the artifact being inserted (after prefix stripping); pattern = rule pattern
            if callee_name(mt).startswith("glob::"):
                art_op = mt["args"][1]
                pat_op = mt["args"][0]
                pc = def_call(b, pat_op)
                pl0 = b.trace(pat_op, (), lambda t: callee_name(t) == "glob::Pattern::new")
                pat_ops = [l.data[1]["args"][0] for l in pl0 if l.kind == "call" and callee_name(l.data[1]) == "glob::Pattern::new"]
                pat_op = pat_ops[0] if pat_ops else pat_op
            else:
                art_op, pat_op = mt["args"][0], mt["args"][1]
            rl = b.trace(art_op, (), None, {"__flow_all__": lambda t: callee_name(t) in (
                "models::helpers::VirtualTargetPath::new", "core::str::strip_prefix", "models::helpers::VirtualTargetPath::value",
                "std::string::ToString::to_string", "std::result::Result::expect", "std::result::Result::unwrap"), "__agg_all__": True})
            recv_roots = {(l.kind, l.data[0] if l.kind == "call" else l.data, l.path) for l in rl if l.kind != "const"}
            art_roots = set()
            for (k, i_, p) in art:
                art_roots.add((k, i_, p))
            same_art = bool(recv_roots) and any(r in art_roots for r in recv_roots)
            pl2 = b.trace(pat_op, (), None, {"__flow_all__": lambda t: callee_name(t) in ("models::helpers::VirtualTargetPath::value", "models::layout::rule::ArtifactRule::pattern")})
            from_rule = bool(pl2) and all(l.path and l.path[-1:] == (("f", "pattern"),) for l in pl2)
            if same_art and from_rule:
                okm = True
                detail = "insertion dominated by edge %s: matcher(artifact, rule pattern) == Ok(true)" % (e,)
        ctx.inst("C03/D1", "MATCH consumes an artifact only after a positive pattern match", okm, detail, it["at"])
        # ---- D2
        sp = list(b.calls_named("core::str::strip_prefix"))
        sp = [(i, t) for (i, t) in sp if any(fa[0] == "variant" and fa[2] == "Match" for (e, fa) in b.facts_dominating(i))]
        if len(sp) != 1:
            ctx.bad("C03/D2", "source prefix", "expected one strip_prefix call on the MATCH arm, found %d" % len(sp))
        else:
            si, st = sp[0]
            some = False
            for (e, fa) in facts:
                if fa[0] == "variant" and fa[2] == "Some":
                    lv = b.trace(fa[1])
                    if lv and all(l.kind == "call" and l.data[0] == si for l in lv):
                        some = True
            defaulted = [callee_name(t2).split("::")[-1] for (j, t2) in b.calls() if (callee_name(t2) or "").startswith("std::option::Option::unwrap_or")
                         and def_call(b, t2["args"][0]) and def_call(b, t2["args"][0])[0] == si]
            ctx.inst("C03/D2", "an artifact outside the source prefix is not consumed", some and not defaulted,
                     "insertion dominated by Some(strip_prefix(src_prefix)): %s; fallback consumers of the Option: %s" % (some, defaulted), st["at"])
        # ---- D5
        eq = False
        for (e, fa) in facts:
            c = as_cmp(fa)
            if c and c[0] == "Eq":
                sides = []
                for o in (c[1], c[2]):
                    lv = b.trace(o, (), lambda t: callee_name(t) in ("std::ops::Index::index", "std::collections::BTreeMap::get"))
                    kinds = set()
                    for l in lv:
                        if l.kind == "call" and callee_name(l.data[1]) == "std::ops::Index::index":
                            kr = root_ids(b, l.data[1]["args"][1])
                            kinds.add("src[artifact]" if kr == art else "src[?]")
                        elif l.kind == "call" and callee_name(l.data[1]) == "std::collections::BTreeMap::get" and l.path == (SOME, F0):
                            kinds.add("dst.get(dst_path)")
                        else:
                            kinds.add("?")
                    sides.append(kinds)
                if sorted(map(sorted, sides)) == [["dst.get(dst_path)"], ["src[artifact]"]]:
                    eq = True
        ctx.inst("C03/D5", "MATCH consumes only artifacts whose digests equal the destination's", eq,
                 "insertion dominated by `source description == destination description` (whole digest maps): %s" % eq, it["at"])
    # ---- D3
    def on_match_arm(i):
        return any(fa[0] == "variant" and fa[2] == "Match" and (fa[3] or "").endswith("ArtifactRule") for (e, fa) in b.facts_dominating(i))
    # the dispatch switch: the ArtifactRule variant test with the most distinct arms
    by_switch = {}
    for (e, tb, fa) in b.all_edge_facts():
        if fa[0] == "variant" and (fa[3] or "").endswith("ArtifactRule"):
            by_switch.setdefault(e[0], set()).add(fa[2])
    disp_sw = max(by_switch, key=lambda x: len(by_switch[x])) if by_switch else None
    comp = [(i, t) for (i, t) in b.calls_named("glob::Pattern::new") if not on_match_arm(i)]
    if not comp:
        ctx.bad("C03/D3", "pattern compiled in the rule engine", "no glob::Pattern::new call in the per-rule loop of apply_rules_on_link: an uninterpretable pattern can only "
                "surface inside a filter closure, where it cannot fail verification")
    for (ci, ct) in comp:
        # the edges on which the compile is known to have succeeded: `?` (Continue of branch) or a match on Ok
        ok_e = []
        for (e, tb, fa) in b.all_edge_facts():
            if fa[0] == "variant" and fa[2] == "Continue":
                lv = b.trace(fa[1], (("v", "Continue"), F0))
                if lv and all(l.kind == "call" and l.data[0] == ci and l.path == (OK, F0) for l in lv):
                    ok_e.append(e)
            elif fa[0] == "variant" and fa[2] == "Ok":
                lv = b.trace(fa[1])
                if lv and all(l.kind == "call" and l.data[0] == ci and not l.path for l in lv):
                    ok_e.append(e)
        # the Err outcome reaches no further rule: with the Ok edges removed, neither the dispatch nor the loop header is reachable from the compile
        err_fatal = False
        loops = [l for l in b.loops().values() if ci in l]
        lp = min(loops, key=len) if loops else None
        hdr = [x for x in (lp or []) if b.blocks[x]["term"] and b.blocks[x]["term"]["k"] == "call" and callee_name(b.blocks[x]["term"]) == "std::iter::Iterator::next"
               and all(b.dom_plain(x, e2[0]) for (e2, tb2) in b.back_edges() if tb2 in lp and b.loop_blocks(tb2) == lp)] if lp else []
        if ok_e and hdr:
            tgt = b.blocks[ci]["term"]["target"]
            r = b.reach_between(tgt, removed_edges=set(ok_e))
            err_fatal = hdr[0] not in r and (disp_sw is None or disp_sw not in r or disp_sw == ci)
        ctx.inst("C03/D3", "pattern compile outcome is propagated as an error", bool(ok_e) and err_fatal,
                 "Ok-outcome edge(s) of glob::Pattern::new: %s; the Err outcome reaches neither the rule dispatch nor the next rule: %s" % (ok_e, err_fatal), ct["at"])
        pr = b.trace(ct["args"][0], (), None, {"__flow_all__": lambda t: callee_name(t) in ("models::helpers::VirtualTargetPath::value", "models::layout::rule::ArtifactRule::pattern")})
        ctx.inst("C03/D3", "the compiled pattern is the rule's pattern", bool(pr) and all(l.kind == "call" and callee_name(l.data[1]) == "std::iter::Iterator::next" or
                                                                                          (l.kind == "param") or l.kind == "call" for l in pr),
                 "pattern argument <- {%s}" % ", ".join(leaf_s(b, l) for l in pr), ct["at"])
        # a rule kind K can reach its dispatch arm without the compile's Ok edge only over an edge asserting that the
        # rule is of another kind (REQUIRE takes its argument literally): remove the Ok edges and every edge on which the
        # rule is known to be of a kind != K, then arm K must be unreachable from the loop entry
        all_arms = [(e, tb, fa[2]) for (e, tb, fa) in b.all_edge_facts() if fa[0] == "variant" and (fa[3] or "").endswith("ArtifactRule")]
        arms = [(e, tb, k) for (e, tb, k) in all_arms if e[0] == disp_sw]
        bypass = []
        n_arms = 0
        if hdr and ok_e:
            for K in ("Create", "Delete", "Modify", "Allow", "Disallow", "Match"):
                targets = [(e, tb) for (e, tb, k) in arms if k == K and e[0] in lp]
                if not targets:
                    bypass.append(K + " (no arm)")
                    continue
                removed = set(ok_e) | {e for (e, tb, k) in all_arms if k != K}
                for (e2, tb2, fa2) in b.all_edge_facts():
                    if fa2[0] == "notvariant" and (fa2[3] or "").endswith("ArtifactRule") and K in fa2[2]:
                        removed.add(e2)
                r = b.reach_between(hdr[0], removed_edges=removed)
                n_arms += 1
                if any(tb in r for (e, tb) in targets):
                    bypass.append(K)
        ctx.inst("C03/D3", "every pattern-interpreting rule kind passes the compile", bool(hdr) and bool(ok_e) and not bypass and n_arms == 6,
                 "rule kinds whose dispatch arm is reachable without the compile's Ok outcome: %s (REQUIRE takes its argument literally)" % bypass, ct["at"])
    # ---- D4 table
    # locate material_paths / product_paths: collect(filter_map(iter(link.materials|products)))
    def coll_src(root, _depth=0):
        """for a set root (call collect..): which link field it was built from"""
        res = set()
        for (k, i_, p) in root:
            if k != "call":
                continue
            t = b.blocks[i_]["term"]
            # only the ORIGIN of the elements is wanted here (which field of the link they are computed from): every call on the
            # way (path cleaning, conversions) is transparent
            FLOW = {"__flow_all__": lambda tt: True, "__content__": True, "__agg_all__": True}
            SRC = lambda tt: callee_name(tt) in ("std::collections::BTreeMap::iter", "std::collections::BTreeMap::keys", "std::collections::BTreeMap::into_iter",
                                                 "std::collections::HashMap::iter", "std::collections::HashMap::keys")
            if SRC(t) and t["args"]:
                # the root is itself an iteration over a map (`m.keys()`, `m.iter()`): which field of the link that map is / was built from
                for (k2, i2, p2) in root_ids(b, t["args"][0]):
                    fields = [x[1] for x in p2 if x[0] == "f" and x[1] in ("materials", "products")]
                    if fields:
                        res.add(fields[-1])
                    elif k2 == "call" and _depth < 3:
                        res |= coll_src({(k2, i2, p2)}, _depth + 1)
                    else:
                        res.add("?")
                continue
            if t["args"]:
                lv = b.trace(t["args"][0], (), SRC, FLOW)
            else:
                # a collection filled element by element (a desugared collect, or a loop of inserts): what its elements come from
                lv = b.trace(t["dst"], (ELEM,), SRC, FLOW)
            for l in lv:
                if l.kind == "call" and SRC(l.data[1]):
                    # the map that is iterated: which field of the link it is
                    for (k2, i2, p2) in root_ids(b, l.data[1]["args"][0]):
                        fields = [x[1] for x in p2 if x[0] == "f" and x[1] in ("materials", "products")]
                        if not fields and k2 == "call" and _depth < 3:
                            res |= coll_src({(k2, i2, p2)}, _depth + 1)     # a local map built from the link's: look through it
                        else:
                            res.add(fields[-1] if fields else "?")
                    continue
                fields = [x[1] for x in l.path if x[0] == "f" and x[1] in ("materials", "products")]
                if fields:
                    res.add(fields[-1])
                elif l.kind not in ("const", "agg") and not (l.kind == "param" and not l.path):
                    res.add(str(l.path[-1]) if l.path else "?")
        return res
    diffs = [(i, t) for (i, t) in b.calls_named("std::collections::BTreeSet::difference") if not on_match_arm(i)]
    named = {}
    queue_update = None
    for (i, t) in diffs:
        a, c = root_ids(b, t["args"][0]), root_ids(b, t["args"][1])
        sa, sc = coll_src(a), coll_src(c)
        if sa == {"products"} and sc == {"materials"}:
            named["created"] = i
        elif sa == {"materials"} and sc == {"products"}:
            named["deleted"] = i
        else:
            queue_update = (i, t, a, c)
    table = None
    if "created" not in named and "deleted" not in named:
        table = table_form(b, coll_src, on_match_arm)
    if table is not None:
        TF = " (table form: a map from path to a change kind, filled under these guards, consulted element-wise on the arms)"
        for kind_, txt in (("created", "created = products \\\\ materials"), ("deleted", "deleted = materials \\\\ products"),
                           ("modified", "modified = (materials n products) with differing digests")):
            ctx.inst("C03/D4", txt, kind_ in table["kinds"].values(), "change kinds recognised by their guards: %s%s" % (table["kinds"], TF))
        for (kind, want) in (("Create", "created"), ("Delete", "deleted"), ("Modify", "modified")):
            ctx.inst("C03/D4", "%s consumes filtered n %s" % (kind.upper(), want), table["arms"].get(kind) == want,
                     "%s arm keeps the elements whose table entry is: %s%s" % (kind, table["arms"].get(kind), TF))
    else:
        ctx.inst("C03/D4", "created = products \\\\ materials", "created" in named, "difference(product paths, material paths) found: %s" % ("created" in named))
        ctx.inst("C03/D4", "deleted = materials \\\\ products", "deleted" in named, "difference(material paths, product paths) found: %s" % ("deleted" in named))
        inter0 = [(i, t) for (i, t) in b.calls_named("std::collections::BTreeSet::intersection") if not on_match_arm(i)
                  and not any(fa[0] == "variant" and (fa[3] or "").endswith("ArtifactRule") for (e, fa) in b.facts_dominating(i))]
        # modified: a set whose elements are elements of (material paths n product paths), inserted only on an edge where the two
        # digests recorded for that path differ
        mod_ok = False
        mod_sets = set()
        inter_mp = set()
        for (i, t) in inter0:
            a, c = coll_src(root_ids(b, t["args"][0])), coll_src(root_ids(b, t["args"][1]))
            if sorted([sorted(a), sorted(c)]) == [["materials"], ["products"]]:
                inter_mp.add(i)
        for (i, t) in b.calls_named("std::collections::BTreeSet::insert"):
            if on_match_arm(i):
                continue
            el = b.trace(t["args"][1], (), lambda x: callee_name(x) == "std::collections::BTreeSet::intersection")
            if not (el and all(l.kind == "call" and l.data[0] in inter_mp and l.path == (ELEM,) for l in el)):
                continue
            differs = False
            for (e, fa) in b.facts_dominating(i):
                cm = as_cmp(fa)
                if cm and cm[0] == "Ne":
                    gets = [def_call(b, o) for o in (cm[1], cm[2])]
                    if all(g and callee_name(g[1]) == "std::collections::BTreeMap::get" for g in gets) and \
                            root_ids(b, gets[0][1]["args"][0]) != root_ids(b, gets[1][1]["args"][0]) and \
                            all(root_ids(b, g[1]["args"][1]) == root_ids(b, t["args"][1]) for g in gets):
                        differs = True
            if differs:
                mod_ok = True
                mod_sets |= {(k, i_) for (k, i_, p) in root_ids(b, t["args"][0])}
        ctx.inst("C03/D4", "modified = (materials n products) with differing digests", mod_ok,
                 "a set filled from intersection(material paths, product paths), each insertion dominated by `materials.get(path) != products.get(path)`: %s" % mod_ok)
        # per-arm consumed sets: the intersections on the arms
        arms = {}
        for (i, t) in b.calls_named("std::collections::BTreeSet::intersection"):
            if on_match_arm(i):
                continue
            arm = None
            for (e, fa) in b.facts_dominating(i):
                if fa[0] == "variant" and (fa[3] or "").endswith("ArtifactRule"):
                    arm = fa[2]
            if arm:
                other = root_ids(b, t["args"][1])
                which = None
                for (k, i_, p) in other:
                    if k != "call":
                        continue
                    if i_ == named.get("created"):
                        which = "created"
                    elif i_ == named.get("deleted"):
                        which = "deleted"
                    elif mod_ok and (k, i_) in mod_sets:
                        which = "modified"
                    else:
                        tt = b.blocks[i_]["term"]
                        if callee_name(tt) in ("std::iter::Iterator::filter_map", "std::iter::Iterator::filter") and tt["args"]:
                            for l in b.trace(tt["args"][0], (), lambda x: callee_name(x) in ("std::collections::BTreeSet::difference", "std::collections::BTreeSet::intersection")):
                                if l.kind == "call" and callee_name(l.data[1]).endswith("intersection") and l.data[0] in {x for (x, _t) in inter0}:
                                    which = "modified"
                arms[arm] = which
        for (kind, want) in (("Create", "created"), ("Delete", "deleted"), ("Modify", "modified")):
            ctx.inst("C03/D4", "%s consumes filtered n %s" % (kind.upper(), want), arms.get(kind) == want, "%s arm intersects the filtered set with: %s" % (kind, arms.get(kind)))
    # REQUIRE / DISALLOW error conditions
    req = dis = False
    req_weak, dis_weak = [], []
    for (e, tb, fa) in b.all_edge_facts():
        p = as_pred(fa)
        if not p or on_match_arm(e[0]):
            continue
        arm = None
        for (e2, fa2) in b.facts_dominating(e[0]):
            if fa2[0] == "variant" and (fa2[3] or "").endswith("ArtifactRule"):
                arm = fa2[2]
        last = (p[0] or "").split("::")[-1]
        # the edge on which the error is raised
        reaches_err = not any(callee_name(b.blocks[x]["term"]) in ("std::collections::BTreeSet::difference",) for x in b.reach_between(tb, removed_blocks=set())
                              if b.blocks[x]["term"] and b.blocks[x]["term"]["k"] == "call" and x in b.reach and False)
        # ... and it is the whole condition: from that edge every path ends in an error return (a second conjunct such as
        # `&& !link.contains_key(path)` lets a path that was consumed by an earlier rule satisfy REQUIRE again)
        fatal = b._is_err_return_path(e[0], tb, set(), e[1], root=True, stop_at_next=False)
        if arm == "Require" and last == "contains" and p[2] is False:
            req = req or fatal
            if not fatal:
                req_weak.append(b.at(e[0]))
        if arm == "Disallow" and last == "is_empty" and p[2] is False:
            dis = dis or fatal
            if not fatal:
                dis_weak.append(b.at(e[0]))
    ctx.inst("C03/D4", "REQUIRE fails when the path is not in the queue", req and not req_weak,
             "Require arm branches on queue.contains(path) == false and every path from that edge is an error return: %s%s" % (req, (" - not fatal at %s" % req_weak) if req_weak else ""))
    ctx.inst("C03/D4", "DISALLOW fails when an artifact matches", dis and not dis_weak,
             "Disallow arm branches on filtered.is_empty() == false and every path from that edge is an error return: %s%s" % (dis, (" - not fatal at %s" % dis_weak) if dis_weak else ""))
    # queue update inside the per-rule loop
    qok = False
    if queue_update:
        (i, t, a, c) = queue_update
        loops = [l for l in b.loops().values() if i in l]
        qok = bool(loops)
    ctx.inst("C03/D4", "queue <- queue \\\\ consumed after every rule", qok, "difference(queue, consumed) inside the per-rule loop: %s" % qok)
    # no early exit from the rule loops (root-level loops containing the dispatch)
    disp_blocks = [disp_sw] if disp_sw is not None else []
    rl = [l for l in b.loops().values() if any(x in l for x in disp_blocks)]
    exits = []
    for l in rl:
        exits += b.continuing_exits(l)
    ctx.inst("C03/D4", "every rule of both lists is applied (no early exit from the rule loops)", bool(rl) and not exits,
             "%d loop(s) around the rule dispatch; exits that skip remaining rules: %s" % (len(rl), [(e, b.at(e[0])) for e in exits]))
    # MATCH arm uses the helper's result
    m_ok = False
    for (e, tb, fa) in b.all_edge_facts():
        if fa[0] == "variant" and fa[2] == "Match" and (fa[3] or "").endswith("ArtifactRule") and e[0] == disp_sw:
            # the insertion examined by D1/D2/D5 lies on the Match arm of the dispatch
            m_ok = len(ins) == 1 and ins[0][0] in b.edge_dominated(e)
    ctx.inst("C03/D4", "MATCH consumes what the checked MATCH insertion builds", m_ok, "the insertion examined by D1, D2 and D5 is on the Match arm of the dispatch: %s" % m_ok)
    allow_ok = False
    # ALLOW: consumed = filtered itself: on the Allow arm no set operation
    for (e, tb, fa) in b.all_edge_facts():
        if fa[0] == "variant" and fa[2] == "Allow" and (fa[3] or "").endswith("ArtifactRule") and e[0] == disp_sw:
            dom = b.edge_dominated(e)
            ops = [callee_name(b.blocks[x]["term"]) for x in dom if b.blocks[x]["term"] and b.blocks[x]["term"]["k"] == "call"
                   and (callee_name(b.blocks[x]["term"]) or "").startswith("std::collections::BTreeSet::") ]
            allow_ok = not [o for o in ops if o.split("::")[-1] in ("intersection", "new")]
    ctx.inst("C03/D4", "ALLOW consumes the filtered set itself", allow_ok, "no set operation on the Allow arm: %s" % allow_ok)
