"""C13 - the verification verdict is a deterministic function of its inputs.

D1: inventory of iterations over unordered collections (HashMap / HashSet) in everything reachable
from in_toto_verify and Metablock::verify; each is classified by how it is consumed.
D2: no ambient non-determinism (clock other than the expiry guard, randomness, environment)."""
import re
from ..core import Body, callee_name, norm, op_place, op_const, proj_path, short, uses_of_local, SOME, F0
from ..guards import body_of, root_ids, same_root, def_call

EXPLANATION = (
    "Inventory rule over the resolved call graph from in_toto_verify / Metablock::verify. Every iterator obtained "
    "from a HashMap/HashSet is followed forward through adaptors, moves, closures and local generic callees to its "
    "consumer. Order-insensitive consumers: loops / try_for_each closures whose only effects on state that outlives "
    "an iteration are inserts into maps/sets, counter steps, and Err returns; collect/extend into a map or set; "
    "all/any/count/sum/min/max; a Vec that is sorted before any other use. Order-sensitive: first/last/nth/find/"
    "fold, next() outside a loop header, collect into a sequence, a break that lets element data escape, a body "
    "that assigns outer variables, or a body that reaches an external effect (process spawn, file write). "
    "An assignment to outer state is accepted when it is a running extremum: taken only while the kept value is None or when "
    "the current element's KEY is strictly below / above the kept key (the minimum of distinct keys does not depend on the "
    "order; `first element seen` alone does). "
    "Two order-sensitive shapes are accepted structurally: find/find_map/position whose result is only tested, Some "
    "leading to an Err return (Err iff some element satisfies the predicate); and an element picked by next() as the "
    "reference of an all-equal check - in the function's REGION it flows only into ==/!= comparisons and error text, and "
    "with every `equal` outcome removed whatever remains reachable from a comparison returns an error. Any other "
    "order-sensitive site must be in the allow-table with a reason (entries name a public function; module-private "
    "helpers called only from it inherit the entry). D2: clock / randomness / environment reads reachable from the "
    "anchors are enumerated; a clock read is accepted only when its value flows nowhere but into ordering comparisons "
    "with a layout's `expires`; any static with interior mutability used on the verification path is a violation.")
DECIDED = ["D1 unordered-iteration inventory with consumer classification", "D2 no clock/randomness/environment reads besides the expiry guard, no process-wide mutable state"]
UNDECIDED = ["determinism of the operating system's directory listing beyond glob's sorted contract", "inspection commands themselves"]
TRUSTED = ["glob returns matches in sorted order", "colliding keys inserted into a map/set from an unordered iteration carry equal values (key ids are intrinsic)"]
ASSUMPTIONS = ["logging (log::*) is not an observable effect"]
FLOORS = {"C13/D1": 10, "C13/D2": 1}

UNORDERED_SRC = {"iter", "iter_mut", "keys", "values", "values_mut", "into_iter", "drain", "into_keys", "into_values",
                 "difference", "union", "intersection", "symmetric_difference"}
ADAPT_OK = {"map", "filter", "filter_map", "cloned", "copied", "inspect", "flat_map", "flatten", "peekable", "by_ref",
            "into_iter", "rev", "fuse", "chain", "map_while"}
ADAPT_SENSITIVE = {"enumerate", "zip", "take", "skip", "step_by", "take_while", "skip_while", "scan"}
TERM_OK = {"all", "any", "count", "sum", "product", "min", "max", "min_by", "max_by", "min_by_key", "max_by_key", "len",
           "is_empty", "size_hint"}
TERM_SENSITIVE = {"last", "nth", "find", "find_map", "position", "rposition", "fold", "reduce", "try_fold", "unzip",
                  "partition", "nth_back", "next_back", "cmp", "eq", "lt", "le", "gt", "ge", "ne", "partial_cmp"}
COMMUTATIVE_MUT = {"std::collections::HashMap::insert", "std::collections::HashSet::insert",
                   "std::collections::BTreeMap::insert", "std::collections::BTreeSet::insert",
                   "std::iter::Extend::extend", "std::collections::HashMap::entry",
                   "std::collections::HashMap::remove", "std::collections::HashSet::remove",
                   "std::collections::BTreeMap::remove", "std::collections::BTreeSet::remove"}
EFFECTS = {"std::process::Command::output", "std::process::Command::spawn", "std::process::Command::status",
           "std::fs::write", "std::fs::File::create", "std::fs::OpenOptions::open", "std::fs::remove_file",
           "std::fs::create_dir", "std::fs::create_dir_all", "std::fs::rename", "std::fs::copy",
           "std::fs::remove_dir_all", "std::fs::remove_dir"}
AMBIENT = {"chrono::Utc::now", "chrono::Local::now", "std::time::SystemTime::now", "std::time::Instant::now",
           "std::env::var", "std::env::var_os", "std::env::vars", "std::env::current_dir", "std::env::args",
           "ring::rand::SystemRandom::new", "ring::rand::SecureRandom::fill", "std::collections::hash_map::RandomState::new",
           "std::thread::current", "std::process::id"}

# order-sensitive sites accepted with a reason: (function path, what) -> reason
ALLOW = {
    ("models::metadata::Metablock::verify", "loop:break"):
        "the loop only counts valid authorised signatures and breaks when the countdown reaches 0; the countdown reaches 0 "
        "iff at least `threshold` valid signatures exist, whatever the order (the payload returned is self.metadata, not an element)",
}
# ambient reads accepted: (function path, callee) -> reason
ALLOW_AMBIENT = {
}


def clean(p):
    return re.sub(r"[A-Za-z0-9_:#]*::_serde::", "serde::", p)


def is_unordered_ty(t):
    t = (t or "").lstrip("&")
    if t.startswith("mut "):
        t = t[4:]
    return t.startswith(("std::collections::HashMap<", "std::collections::HashSet<",
                         "std::collections::hash_map::", "std::collections::hash_set::"))


def is_unordered_coll(t):
    t = (t or "").lstrip("&")
    if t.startswith("mut "):
        t = t[4:]
    return t.startswith(("std::collections::HashMap<", "std::collections::HashSet<"))


class Flow:
    """Forward classification of one iterator value."""

    def __init__(self, ctx, fx, cg):
        self.ctx, self.fx, self.cg = ctx, fx, cg
        self.findings = []   # (sensitive?, what, fn path, at, detail)
        self.visited = set()

    def add(self, sensitive, what, body, at, detail):
        self.findings.append((sensitive, what, clean(body.path), at, detail))

    # -- follow a local holding the iterator / collection-from-iterator
    def follow(self, body, l, depth=0, what="iterator"):
        key = (body.key, l, what)
        if key in self.visited or depth > 12:
            return
        self.visited.add(key)
        used = False
        for (bb, idx, node) in uses_of_local(body, l):
            if idx >= 0:
                st = node
                if st["k"] != "assign":
                    continue
                rv = st["rv"]
                dst = st["dst"]
                if rv["k"] in ("use", "cast") and op_place(rv["op"]) and op_place(rv["op"])["l"] == l and not op_place(rv["op"])["p"]:
                    used = True
                    if dst["p"]:
                        self.add(True, "stored-in-field", body, st["at"], "iterator stored into %s" % dst)
                    else:
                        self.follow(body, dst["l"], depth + 1, what)
                elif rv["k"] == "ref" and rv["place"]["l"] == l and not proj_path(rv["place"]):
                    used = True
                    self.follow_ref(body, dst["l"], l, depth + 1, what)
                elif rv["k"] == "agg":
                    used = True
                    if rv["agg"] == "closure":
                        i = [op_place(o)["l"] if op_place(o) else None for o in rv["ops"]].index(l)
                        self.add(True, "captured-by-closure", body, st["at"], "iterator captured by closure %s as upvar %d" % (rv["closure_key"], i))
                    else:
                        self.add(True, "stored-in-aggregate", body, st["at"], "iterator stored in an aggregate")
                continue
            t = node
            if t["k"] == "drop":
                continue
            if t["k"] != "call":
                continue
            ai = None
            for i, a in enumerate(t["args"]):
                p = op_place(a)
                if p and p["l"] == l and not p["p"]:
                    ai = i
            if ai is None:
                continue
            used = True
            self.consume_call(body, bb, t, ai, depth, what)
        return used

    def follow_ref(self, body, r, base, depth, what):
        """r = &mut base (or &base): uses of the reference."""
        for (bb, idx, node) in uses_of_local(body, r):
            if idx >= 0:
                st = node
                if st["k"] == "assign" and st["rv"]["k"] in ("use", "ref") and not st["dst"]["p"]:
                    src = op_place(st["rv"].get("op")) if st["rv"]["k"] == "use" else st["rv"]["place"]
                    if src and src["l"] == r:
                        self.follow_ref(body, st["dst"]["l"], base, depth + 1, what)
                continue
            t = node
            if t["k"] != "call":
                continue
            for i, a in enumerate(t["args"]):
                p = op_place(a)
                if p and p["l"] == r and not p["p"]:
                    self.consume_call(body, bb, t, i, depth, what, by_ref=True)

    def consume_call(self, body, bb, t, ai, depth, what, by_ref=False):
        n = callee_name(t) or ""
        last = n.split("::")[-1]
        at = t["at"]
        is_iter_trait = norm(t.get("trait")) in ("std::iter::Iterator", "std::iter::IntoIterator", "std::iter::DoubleEndedIterator",
                                                 "std::iter::FromIterator", "std::iter::Extend", "std::iter::ExactSizeIterator")
        if what == "vec":
            # a Vec collected from an unordered iteration: fine only if it is sorted first
            if last in ("sort", "sort_by", "sort_by_key", "sort_unstable", "sort_unstable_by", "sort_unstable_by_key"):
                self.add(False, "collect-vec-then-sort", body, at, "Vec collected from unordered iteration is sorted by %s" % last)
                self.sorted_vec = True
                self.sort_block = (body.key, bb)
                return
            if last in ("len", "is_empty", "deref", "deref_mut", "as_slice", "as_mut_slice", "capacity"):
                if last in ("deref_mut", "as_mut_slice", "deref", "as_slice"):
                    self.follow(body, t["dst"]["l"], depth + 1, "vec")
                return
            self.vec_uses = getattr(self, "vec_uses", []) + [(body, bb, n, at)]
            return
        if ai != 0 and not (last in ("extend", "from_iter", "zip", "chain")):
            # passed as a non-receiver argument
            ck = t.get("resolved_key") or t.get("callee_key")
            if ck in self.fx.fns and t.get("resolved_kind") != "Virtual":
                cb = body_of(self.fx, ck)
                self.follow(cb, ai + 1, depth + 1, what)
                return
            self.add(True, "escapes", body, at, "iterator passed as argument %d of %s" % (ai, n))
            return
        if last == "next" and is_iter_trait:
            loop = self.own_loop(body, bb, t)
            if loop is not None:
                self.loop_effects(body, loop, bb, t["at"], "loop")
            elif reference_pick_only_compared(self.ctx, self.fx, body, bb, t):
                self.add(False, "next-outside-loop:reference-pick", body, at, "an arbitrary element is picked as the reference of an all-equal check: it only "
                         "flows into ==/!= comparisons (and error text), and every `differs` outcome returns an error, so any pick gives the same verdict")
            else:
                key = (clean(body.path), "next-outside-loop")
                self.add(True, "next-outside-loop", body, at, "first element (in hash order) taken by next() outside a loop")
            return
        if last in ADAPT_OK and (is_iter_trait or is_unordered_ty((t.get("arg_tys") or [""])[0])):
            if last in ("map", "filter", "filter_map", "inspect", "flat_map", "map_while"):
                self.closure_effects(body, t, at, last)
            self.follow(body, t["dst"]["l"], depth + 1, what)
            return
        if last == "take" and self.only_counted(body, t["dst"]["l"]):
            self.add(False, "take-then-count", body, at, "take(n) followed only by count(): min(n, number of elements) whatever the order")
            return
        if last in ADAPT_SENSITIVE:
            self.add(True, "adaptor-" + last, body, at, "%s over an unordered iteration depends on hash order" % last)
            return
        if last in ("collect", "from_iter"):
            target = [g for g in t.get("generics", ["", ""]) if not g.startswith("'")]
            tgt = (target[-1] if last == "collect" else target[0]) if target else "?"
            inner = tgt
            m = re.match(r"^std::(result::Result|option::Option)<(.*)$", tgt)
            if m:
                inner = m.group(2)
            if inner.startswith(("std::collections::HashMap<", "std::collections::HashSet<", "std::collections::BTreeMap<", "std::collections::BTreeSet<")):
                self.add(False, "collect-into-map/set", body, at, "collected into %s" % inner.split("<")[0])
            elif inner.startswith("std::vec::Vec<"):
                self.sorted_vec = False
                self.sort_block = None
                self.vec_uses = []
                self.follow(body, t["dst"]["l"], depth + 1, "vec")
                if not self.sorted_vec:
                    self.add(True, "collect-vec-unsorted", body, at, "collected into a Vec that is never sorted")
                else:
                    for (ub, ubb, un, uat) in self.vec_uses:
                        if ub.key != self.sort_block[0] or not ub.dominates(self.sort_block[1], ubb):
                            self.add(True, "collect-vec-unsorted", ub, uat, "Vec collected from unordered iteration is used by %s on a path that does not pass the sort" % un)
            else:
                self.add(True, "collect-into-sequence", body, at, "collected into ordered container %s" % tgt)
            return
        if last == "extend":
            recv = (t.get("arg_tys") or [""])[0]
            if ai == 1 and re.search(r"(HashMap|HashSet|BTreeMap|BTreeSet)<", recv):
                self.add(False, "extend-map/set", body, at, "extends a map/set")
            elif ai == 0:
                return
            else:
                self.add(True, "extend-sequence", body, at, "extends ordered container %s" % recv)
            return
        if last in TERM_OK:
            self.add(False, "terminal-" + last, body, at, "%s is order-insensitive" % last)
            return
        if last in ("find", "find_map", "position") and self.result_only_selects_err(body, bb, t):
            self.add(False, "terminal-%s-err-only" % last, body, at, "%s result is only tested: Some(..) leads to an Err return, None continues "
                     "(Err iff some element satisfies the predicate, whatever the order; the element only reaches the error value)" % last)
            self.closure_effects(body, t, at, last)
            return
        if last in TERM_SENSITIVE:
            self.add(True, "terminal-" + last, body, at, "%s over an unordered iteration depends on hash order" % last)
            return
        if last in ("for_each", "try_for_each"):
            self.classify_closure_loop(body, t, at, last)
            return
        if last in ("drop", "clone", "fmt"):
            return
        ck = t.get("resolved_key") or t.get("callee_key")
        if ck in self.fx.fns and t.get("resolved_kind") != "Virtual":
            cb = body_of(self.fx, ck)
            self.follow(cb, ai + 1, depth + 1, what)
            return
        self.add(True, "unknown-consumer", body, at, "iterator consumed by %s (not in the consumer table)" % n)

    def only_counted(self, body, l, depth=0):
        """The iterator held in local l is consumed by count() and by nothing else."""
        if depth > 6:
            return False
        used = False
        for (bb, idx, node) in uses_of_local(body, l):
            if bb not in body.reach:
                continue
            if idx >= 0:
                if node["k"] == "assign" and node["rv"]["k"] == "use" and not node["dst"]["p"]:
                    if not self.only_counted(body, node["dst"]["l"], depth + 1):
                        return False
                    used = True
                    continue
                return False
            if node["k"] == "drop":
                continue
            if node["k"] == "call" and callee_name(node) in ("std::iter::Iterator::count",):
                used = True
                continue
            return False
        return used

    # -- loops ----------------------------------------------------------------------------------
    def own_loop(self, body, bb, t):
        """The natural loop driven by this next() call: the call block dominates every back edge of the
        loop and the iterator it advances is created outside the loop."""
        best = None
        heads = {tb for (e, tb) in body.back_edges()}
        for h in heads:
            loop = body.loop_blocks(h)
            if bb not in loop:
                continue
            if not all(body.dominates(bb, e[0]) for (e, tb) in body.back_edges() if tb == h):
                continue
            # iterator state defined outside the loop
            it = self.iter_local(body, t)
            if it is None:
                continue
            if any(d.bb in loop for d in body.defs.get(it, [])):
                continue
            if best is None or len(loop) < len(best):
                best = loop
        return best

    def iter_local(self, body, t):
        p = op_place(t["args"][0])
        if p is None:
            return None
        l = p["l"]
        for _ in range(8):
            d = body.single_def(l)
            if d and d.kind == "assign" and d.node["rv"]["k"] == "ref":
                pl = d.node["rv"]["place"]
                l = pl["l"]
                if "*" in pl["p"]:
                    continue      # reborrow: keep chasing the reference
                return l
            if d and d.kind == "assign" and d.node["rv"]["k"] == "use" and op_place(d.node["rv"]["op"]) \
                    and body.local_ty(l).startswith("&"):
                l = op_place(d.node["rv"]["op"])["l"]
                continue
            return l
        return l

    def classify_loop(self, body, hb, t):
        # smallest natural loop containing hb
        loops = [body.loop_blocks(tb) for (e, tb) in body.back_edges() if hb in body.loop_blocks(tb)]
        loop = min(loops, key=len)
        self.loop_effects(body, loop, hb, t["at"], "loop")

    def loop_effects(self, body, loop, hb, at, tag):
        fx, cg = self.fx, self.cg
        path = clean(body.path)
        problems = []
        # exits: exhaustion edge(s), then everything after the loop; the shared call-free tail that only
        # drops and returns; and the region of early `return` paths (error construction etc.)
        exhaustion = set()
        ht = body.blocks[hb]["term"]
        for (e, tb2, f) in body.all_edge_facts():
            if e[0] in loop and f[0] == "variant" and f[2] == "None" and f[1]["l"] == ht["dst"]["l"]:
                exhaustion.add(e)
        after = set()
        for (b0, j0) in exhaustion:
            after |= body._reach_from(body.succ[b0][j0][0], None, removed_blocks=loop)
        tail = {b for b in after if self.exit_kind(body, b) == "return"}
        work = after - tail
        ret_region = set()
        break_exits = []
        for b in sorted(loop):
            for j, (tb, lab) in enumerate(body.succ[b]):
                if tb in loop or (b, j) in exhaustion:
                    continue
                r = body._reach_from(tb, None, removed_blocks=loop)
                if r & work:
                    break_exits.append((b, j))
                else:
                    ret_region |= (r - tail)
        inside = loop | ret_region
        # (1) outer locals written in the loop
        def is_outer(l):
            if 1 <= l <= body.argc or l == 0:
                return True
            for d in body.defs.get(l, []):
                if d.bb not in inside:
                    return True
            for (bb, idx, node) in uses_of_local(body, l):
                if bb not in inside and bb in body.reach:
                    t = body.blocks[bb]["term"]
                    # drops and drop-flag tests outside the loop do not observe the value
                    if idx == -1 and t["k"] in ("drop",):
                        continue
                    if idx >= 0 and self.is_drop_glue(body, l, bb, idx):
                        continue
                    return True
            return False
        ret_defs = []
        for b in sorted(loop):
            blk = body.blocks[b]
            for j, st in enumerate(blk["stmts"]):
                if st["k"] != "assign":
                    continue
                l = st["dst"]["l"]
                ty = body.local_ty(l)
                rv = st["rv"]
                if l == 0:
                    ret_defs.append((b, st))
                    continue
                if "*" in st["dst"]["p"]:
                    # write through a reference / box
                    if self.pointee_is_loop_local(body, l, loop, is_outer):
                        continue
                    problems.append(("assign-through-ref", st["at"], "writes through a reference to state outside the loop"))
                    continue
                if not is_outer(l):
                    continue
                if ty == "bool" and not body.locals[l].get("name") and rv["k"] == "use" and op_const(rv["op"]) is not None:
                    continue  # drop flag
                if ty == "()":
                    continue
                if self.is_counter_step(body, l, rv):
                    continue
                if self.is_iter_state(body, l, hb):
                    continue
                if self.is_running_extremum(body, l, st, b, loop, hb):
                    continue
                problems.append(("assign-outer", st["at"], "assigns %s, which outlives the iteration" % body.local_name(l)))
            t = blk["term"]
            if t and t["k"] == "call":
                if t["dst"]["l"] == 0:
                    ret_defs.append((b, t))
                elif is_outer(t["dst"]["l"]) and b != hb and not t["dst"]["p"]:
                    if not self.is_iter_state(body, t["dst"]["l"], hb):
                        problems.append(("assign-outer", t["at"], "assigns %s (call result), which outlives the iteration" % body.local_name(t["dst"]["l"])))
        # (2) &mut outer state passed to calls
        for base, uses in body.mutators.items():
            for (b, t, ai) in uses:
                if b not in loop or b == hb:
                    continue
                if not is_outer(base) or self.is_iter_state(body, base, hb):
                    continue
                n = callee_name(t) or ""
                if n in COMMUTATIVE_MUT and ai == 0:
                    recv = (t.get("arg_tys") or [""])[0]
                    if n == "std::iter::Extend::extend" and not re.search(r"(HashMap|HashSet|BTreeMap|BTreeSet)<", recv):
                        problems.append(("mutates-outer", t["at"], "extends ordered container %s" % recv))
                    continue
                if n.startswith("std::fmt::") or n.startswith("core::fmt::"):
                    continue
                problems.append(("mutates-outer", t["at"], "passes &mut %s (outlives the iteration) to %s" % (body.local_name(base), n)))
        # (3) exits other than exhaustion and early returns
        for (b, j) in break_exits:
            problems.append(("break", body.at(b), "leaves the loop early and continues after it (break)"))
        for b in sorted(ret_region):
            blk = body.blocks[b]
            for st in blk["stmts"]:
                if st["k"] == "assign" and st["dst"]["l"] == 0:
                    ret_defs.append((b, st))
            t = blk["term"]
            if t and t["k"] == "call" and t["dst"]["l"] == 0:
                ret_defs.append((b, t))
        for (b, node) in ret_defs:
            ok = False
            if node["k"] == "assign" and node["rv"]["k"] == "agg" and node["rv"].get("variant") == "Err":
                ok = True
            if node["k"] == "call" and (callee_name(node) or "").endswith("FromResidual::from_residual"):
                ok = True
            if node["k"] == "assign" and node["rv"]["k"] == "agg" and node["rv"].get("variant") in ("Ok", "Continue") and \
                    all(op_const(o) is not None or "()" in str(o) or (op_place(o) and body.local_ty(op_place(o)["l"]) == "()") for o in node["rv"]["ops"]):
                ok = True  # Ok(()) of a closure body
            if not ok:
                problems.append(("return-value", node.get("at"), "returns a value computed inside the unordered iteration"))
        # (4) external effects reachable from the body
        callees = set()
        direct = []
        for b in sorted(loop):
            t = body.blocks[b]["term"]
            if t and t["k"] == "call":
                ck = t.get("resolved_key") or t.get("callee_key")
                if ck in fx.fns:
                    callees.add(ck)
                if callee_name(t) in EFFECTS:
                    direct.append(t)
        okey = body.fn.get("key")
        for ck in fx.closures_of.get(okey, []):
            pass
        seen = cg.reachable(callees)
        eff = cg.ext_reach(seen, EFFECTS)
        if direct or eff:
            first = eff[0] if eff else None
            chain = " -> ".join(clean(x) for x in cg.chain(seen, first[0])) if first else path
            problems.append(("external-effect", at, "iteration body reaches an external effect (%s via %s): effects and anything "
                             "read back from the file system happen in hash order" % (callee_name(first[2]) if first else callee_name(direct[0]), chain)))
        if problems:
            kinds = sorted({p[0] for p in problems})
            for k in kinds:
                ps = [p for p in problems if p[0] == k]
                self.findings.append((True, "%s:%s" % (tag, k), path, ps[0][1], "; ".join(p[2] for p in ps[:3])))
        else:
            self.findings.append((False, tag + ":commutative-body", path, at,
                                  "body only inserts into maps/sets, steps counters, continues or returns Err"))

    def result_only_selects_err(self, body, bb, t):
        if self._result_only_selects_err_plain(body, bb, t):
            return True
        # the Err may be built into a local first (a per-step `verdict` handed to `?` afterwards): judge the Some edge path-sensitively -
        # every feasible path from it ends in an error return of the function
        if t["dst"]["p"]:
            return False
        holders = {t["dst"]["l"]}
        changed = True
        while changed:
            changed = False
            for h in list(holders):
                for (ub, idx, node) in uses_of_local(body, h):
                    if idx >= 0 and node["k"] == "assign" and not node["dst"]["p"] and node["rv"]["k"] == "use":
                        q = op_place(node["rv"]["op"])
                        if q is not None and q["l"] == h and not q["p"] and node["dst"]["l"] not in holders:
                            holders.add(node["dst"]["l"])
                            changed = True
        some_e = [(e, tb) for (e, tb, fa) in body.all_edge_facts() if fa[0] == "variant" and fa[1]["l"] in holders and not fa[1]["p"] and fa[2] == "Some"]
        if not some_e:
            return False
        if not body.ps:
            body.enable_path_sensitivity()
        if not all(body._is_err_return_path(e[0], tb, set(), e[1], root=True) for (e, tb) in some_e):
            return False
        err_region = set()
        for (e, tb) in some_e:
            err_region |= body.reach_between(tb)
        for h in holders:
            for (ub, idx, node) in uses_of_local(body, h):
                if ub not in body.reach or ub in err_region:
                    continue
                if idx == -1:
                    if node["k"] in ("drop", "switch"):
                        continue
                    return False
                if node["k"] == "assign":
                    rv = node["rv"]
                    if rv["k"] == "discr":
                        continue
                    if rv["k"] == "use" and op_place(rv["op"]) and not op_place(rv["op"])["p"] and node["dst"]["l"] in holders:
                        continue
                    return False
        return True

    def _result_only_selects_err_plain(self, body, bb, t):
        """The Option returned by the call at bb is only matched: every path from its `Some` edge assigns an Err to the return
        place before it can reach the code that follows the `None` edge, and its payload is read on those paths only."""
        if t["dst"]["p"]:
            return False
        holders = {t["dst"]["l"]}
        changed = True
        while changed:          # plain moves of the Option
            changed = False
            for h in list(holders):
                for (ub, idx, node) in uses_of_local(body, h):
                    if idx >= 0 and node["k"] == "assign" and not node["dst"]["p"] and node["rv"]["k"] == "use":
                        q = op_place(node["rv"]["op"])
                        if q is not None and q["l"] == h and not q["p"] and node["dst"]["l"] not in holders:
                            holders.add(node["dst"]["l"])
                            changed = True
        some_e, none_e = [], []
        for (e, tb, fa) in body.all_edge_facts():
            if fa[0] == "variant" and fa[1]["l"] in holders and not fa[1]["p"]:
                (some_e if fa[2] == "Some" else none_e).append((e, tb))
        if not some_e or not none_e:
            return False
        cont = set()
        cut = {e for (e, tb) in some_e}
        stack = [tb for (e, tb) in none_e]
        while stack:          # the continuation: everything the None case can reach without taking a Some edge of this result
            x = stack.pop()
            if x in cont:
                continue
            cont.add(x)
            for j, (nb, _lab) in enumerate(body.succ[x]):
                if (x, j) not in cut:
                    stack.append(nb)
        err_region = set()
        for (e, tb) in some_e:
            # walk from the Some edge; stop at blocks that assign Err to _0 / from_residual; reaching the continuation
            # (other than a pure return tail) before that means the Some case carries on
            stack, seen = [tb], set()
            while stack:
                x = stack.pop()
                if x in seen:
                    continue
                seen.add(x)
                blk = body.blocks[x]
                assigned = None
                for st in blk["stmts"]:
                    if st["k"] == "assign" and st["dst"]["l"] == 0 and not st["dst"]["p"]:
                        assigned = "Err" if (st["rv"]["k"] == "agg" and st["rv"].get("variant") == "Err") else "other"
                tt = blk["term"]
                if tt and tt["k"] == "call" and tt["dst"]["l"] == 0 and not tt["dst"]["p"]:
                    assigned = "Err" if (callee_name(tt) or "").endswith("FromResidual::from_residual") else "other"
                if assigned == "Err":
                    continue
                if assigned == "other" or tt is None or tt["k"] == "return":
                    return False
                if x in cont and self.exit_kind(body, x) != "return":
                    return False
                if tt["k"] == "call" and callee_name(tt) == "std::iter::Iterator::next":
                    return False
                for (nb, _lab) in body.succ[x]:
                    stack.append(nb)
            err_region |= seen
        # payload reads only inside the error region
        for h in holders:
            for (ub, idx, node) in uses_of_local(body, h):
                if ub not in body.reach or ub in err_region:
                    continue
                if idx == -1:
                    if node["k"] in ("drop", "switch"):
                        continue
                    return False
                if node["k"] == "assign":
                    rv = node["rv"]
                    if rv["k"] == "discr":
                        continue
                    if rv["k"] == "use" and op_place(rv["op"]) and not op_place(rv["op"])["p"] and node["dst"]["l"] in holders:
                        continue
                    return False
        return True

    def is_drop_glue(self, body, l, bb, idx=0):
        """Block bb starts an elaborated ("open") drop of local l: from bb, blocks that only read discriminants of l, set drop
        flags and drop parts of l, branching on those discriminants, and the branches reconverge at a single block - whichever
        variant l holds, control continues at the same place and no payload is copied out."""
        def glue_block(x):
            blk = body.blocks[x]
            locs = set()
            for si, st in enumerate(blk["stmts"]):
                if x == bb and si < idx:
                    continue
                if st["k"] != "assign" or st["dst"]["p"]:
                    return None
                rv = st["rv"]
                if rv["k"] == "discr" and rv["place"]["l"] == l:
                    locs.add(st["dst"]["l"])
                elif rv["k"] == "use" and op_const(rv["op"]) is not None and body.local_ty(st["dst"]["l"]) in ("bool", "()") \
                        and not body.locals[st["dst"]["l"]].get("name"):
                    continue
                else:
                    return None
            t = blk["term"]
            if t is None:
                return None
            if t["k"] == "goto":
                return locs
            if t["k"] == "drop" and t["place"]["l"] == l:
                return locs
            if t["k"] == "switch":
                p = op_place(t["discr"])
                if p is not None and not p["p"] and (p["l"] in locs or body.local_ty(p["l"]) == "bool" and not body.locals[p["l"]].get("name")):
                    return locs
            return None
        seen, frontier, stack = set(), set(), [bb]
        while stack:
            x = stack.pop()
            if x in seen:
                continue
            if glue_block(x) is None or (x != bb and len([1 for (p, _j) in body.pred[x] if p in body.reach and p not in seen]) > 0 and False):
                frontier.add(x)
                continue
            seen.add(x)
            for (nb, lab) in body.succ[x]:
                stack.append(nb)
        return bool(seen) and len(frontier) == 1

    def pointee_is_loop_local(self, body, l, loop, is_outer, depth=0):
        """Pointer local l points to memory that is fresh per iteration or belongs to the element."""
        if depth > 8:
            return False
        ds = body.defs.get(l, [])
        if not ds or (1 <= l <= body.argc):
            return False
        for d in ds:
            if d.bb not in loop:
                return False
            if d.kind == "call":
                continue   # allocation / element handed out inside the loop
            rv = d.node["rv"]
            if rv["k"] == "ref":
                if is_outer(rv["place"]["l"]) and "*" not in rv["place"]["p"]:
                    return False
                if "*" in rv["place"]["p"] and not self.pointee_is_loop_local(body, rv["place"]["l"], loop, is_outer, depth + 1):
                    return False
            elif rv["k"] in ("use", "cast"):
                q = op_place(rv["op"])
                if q is None:
                    continue
                if not self.pointee_is_loop_local(body, q["l"], loop, is_outer, depth + 1):
                    return False
            elif rv["k"] == "agg":
                continue
            else:
                return False
        return True

    def ref_base(self, body, l):
        d = body.single_def(l)
        seen = 0
        while d is not None and seen < 8:
            seen += 1
            if d.kind == "assign" and d.node["rv"]["k"] == "ref":
                return d.node["rv"]["place"]["l"]
            if d.kind == "assign" and d.node["rv"]["k"] == "use" and op_place(d.node["rv"]["op"]):
                q = op_place(d.node["rv"]["op"])
                if q["p"]:
                    return q["l"]
                d = body.single_def(q["l"])
                continue
            if d.kind == "call":
                # result of a call (e.g. element handed out by next / deref): trace its receiver
                args = d.node["args"]
                if args and op_place(args[0]):
                    return self.ref_base(body, op_place(args[0])["l"]) or op_place(args[0])["l"]
                return None
            return None
        return None

    def is_running_extremum(self, body, l, st, b, loop, hb):
        """see _extremum_site; an assignment that runs only while `best` is still None (the first element seen) is order
        dependent on its own - it is accepted only next to a sibling assignment under the strict key comparison."""
        k = self._extremum_site(body, l, st, b, loop, hb)
        if k in ("cmp", "mixed"):
            return True
        if k == "none":
            for b2 in sorted(loop):
                for st2 in body.blocks[b2]["stmts"]:
                    if st2 is not st and st2["k"] == "assign" and st2["dst"]["l"] == l and not st2["dst"]["p"] and \
                            self._extremum_site(body, l, st2, b2, loop, hb) == "cmp":
                        return True
        return False

    def _extremum_site(self, body, l, st, b, loop, hb):
        """`best = Some(elem)` inside the loop, taken only when `best` is still None or when the KEY of the current element is
        strictly below / above the key kept in `best`: the minimum (maximum) of distinct map keys under a total order is the
        same whatever the iteration order."""
        from ..core import as_cmp, CMP_CALLS
        rv = st["rv"]
        for _ in range(3):
            q = op_place(rv["op"]) if rv["k"] == "use" else None
            dq = body.single_def(q["l"]) if (q is not None and not q["p"]) else None
            if dq is not None and dq.kind == "assign":
                rv = dq.node["rv"]
            else:
                break
        if not (rv["k"] == "agg" and rv.get("variant") == "Some" and "Option" in (rv.get("adt") or "")) or st["dst"]["p"]:
            return None
        ht = body.blocks[hb]["term"]
        if not ht or ht["k"] != "call" or callee_name(ht) != "std::iter::Iterator::next":
            return None
        def from_elem(op, key_only):
            lv = body.trace(op, (), lambda tt: tt is ht, None if key_only else {"__agg_all__": True})
            return bool(lv) and all(lf.kind == "call" and lf.data[0] == hb and lf.path[:2] == (SOME, F0) and
                                    (not key_only or lf.path[2:3] == (F0,)) for lf in lv)
        if not from_elem(rv["ops"][0], False):
            return None
        def based_on_best(op):
            p = op_place(op)
            for _ in range(10):
                if p is None:
                    return False
                if p["l"] == l:
                    return True
                d = body.single_def(p["l"])
                if d is None or d.kind != "assign":
                    return False
                r = d.node["rv"]
                p = r["place"] if r["k"] in ("ref", "rawptr") else (op_place(r["op"]) if r["k"] == "use" else None)
            return False
        def none_edge_dominates(bb):
            return any(fa[0] == "variant" and fa[2] == "None" and fa[1]["l"] == l and e[0] in loop for (e, fa) in body.facts_dominating(bb))
        def strict_key_cmp(node):
            """node: call term or binop rvalue comparing the element's key with the key kept in `best`, strictly"""
            if node.get("k") == "call":
                op = CMP_CALLS.get(callee_name(node))
                args = node["args"] if len(node["args"]) == 2 else None
            else:
                op, args = node.get("op"), [node.get("a"), node.get("b")]
            if op not in ("Lt", "Gt") or not args:
                return False
            a, c = args
            return (from_elem(a, True) and not based_on_best(a) and based_on_best(c)) or (from_elem(c, True) and not based_on_best(c) and based_on_best(a))
        # the innermost switch of the loop that decides whether the assignment runs
        guards = [(e, fa) for (e, fa) in body.facts_dominating(b) if e[0] in loop]
        for (e, fa) in guards:
            cm = as_cmp(fa)
            if cm and fa[0] == "bool":
                node = fa[1]
                if node[0] == "call" and strict_key_cmp(node[2]) and fa[2] is True:
                    return "cmp"
                if node[0] == "binop" and fa[2] is True and strict_key_cmp({"op": node[1], "a": node[2], "b": node[3]}):
                    return "cmp"
        if any(fa[0] == "variant" and fa[2] == "None" and fa[1]["l"] == l for (e, fa) in guards):
            return "none"
        # the guard is a bool local computed by a match on `best`: every definition is `true` under `best is None`, or the strict
        # comparison of the keys
        for e in {e for (e, fa) in guards}:
            t = body.blocks[e[0]]["term"]
            if not t or t["k"] != "switch":
                continue
            g = op_place(t["discr"])
            if g is None or g["p"] or body.local_ty(g["l"]) != "bool":
                continue
            for _ in range(3):      # `_t = copy flag; switch _t`
                dg = body.single_def(g["l"])
                qg = op_place(dg.node["rv"]["op"]) if (dg and dg.kind == "assign" and dg.node["rv"]["k"] == "use") else None
                if qg is not None and not qg["p"]:
                    g = qg
                else:
                    break
            # the edge taken must be the `true` edge
            tb, lab = body.succ[e[0]][e[1]]
            taken_true = (lab[0] == "sw" and lab[1] != 0) or (lab[0] == "other" and 0 in {v for v, _ in t["arms"]})
            if not taken_true:
                continue
            defs = body.defs.get(g["l"], [])
            if len(defs) < 2:
                continue
            okd = True
            n_cmp = 0
            for d in defs:
                if d.kind == "assign" and d.node["rv"]["k"] == "use" and op_const(d.node["rv"]["op"]) is not None:
                    if op_const(d.node["rv"]["op"]).get("int") == 1 and not none_edge_dominates(d.bb):
                        okd = False
                elif d.kind == "call":
                    n_cmp += 1
                    if not strict_key_cmp(d.node):
                        okd = False
                elif d.kind == "assign" and d.node["rv"]["k"] == "binop":
                    n_cmp += 1
                    if not strict_key_cmp(d.node["rv"]):
                        okd = False
                else:
                    okd = False
            if okd and n_cmp >= 1:
                return "mixed"
        return None

    def is_counter_step(self, body, l, rv):
        if rv["k"] == "use":
            q = op_place(rv["op"])
            if q is not None and proj_path(q) == (("f", "0"),):
                dt = body.single_def(q["l"])
                if dt and dt.kind == "assign" and dt.node["rv"]["k"] == "binop":
                    b = dt.node["rv"]
                    a_p = op_place(b["a"])
                    return bool(a_p and a_p["l"] == l and op_const(b["b"]) is not None)
        if rv["k"] == "binop" and rv["op"] in ("Add", "Sub"):
            a_p = op_place(rv["a"])
            return bool(a_p and a_p["l"] == l and op_const(rv["b"]) is not None)
        return False

    def is_iter_state(self, body, l, hb):
        t = body.blocks[hb]["term"]
        if not t or t["k"] != "call":
            return False
        if t["dst"]["l"] == l:
            return True
        if self.iter_local(body, t) == l:
            return True
        # intermediate borrow temporaries of the header
        p = op_place(t["args"][0])
        x = p["l"] if p else None
        for _ in range(8):
            if x is None:
                break
            if x == l:
                return True
            d = body.single_def(x)
            if d and d.kind == "assign" and d.node["rv"]["k"] == "ref":
                x = d.node["rv"]["place"]["l"]
            elif d and d.kind == "assign" and d.node["rv"]["k"] == "use" and op_place(d.node["rv"]["op"]):
                x = op_place(d.node["rv"]["op"])["l"]
            else:
                break
        return False

    def exit_kind(self, body, tb):
        """'return' if every path from tb to Return is free of calls and of assignments to _0."""
        seen = set()
        stack = [tb]
        while stack:
            b = stack.pop()
            if b in seen:
                continue
            seen.add(b)
            blk = body.blocks[b]
            for st in blk["stmts"]:
                if st["k"] == "assign" and st["dst"]["l"] == 0:
                    return "continue"
            t = blk["term"]
            if t["k"] == "call":
                return "continue"
            for (nb, _) in body.succ[b]:
                stack.append(nb)
        return "return"

    def is_exhaustion_exit(self, body, hb, b, j):
        return False

    # -- closures as loop bodies -----------------------------------------------------------------
    def closure_of_arg(self, body, t):
        for a in t["args"][1:]:
            p = op_place(a)
            if p is None:
                continue
            d = body.single_def(p["l"])
            if d and d.kind == "assign" and d.node["rv"]["k"] == "agg" and d.node["rv"]["agg"] == "closure":
                return d.node["rv"]["closure_key"], d.node["rv"]["ops"]
        return None, None

    def classify_closure_loop(self, body, t, at, name):
        ck, ops = self.closure_of_arg(body, t)
        if ck is None or ck not in self.fx.fns:
            self.add(True, "unknown-closure", body, at, "%s with a callable that is not a local closure" % name)
            return
        cb = body_of(self.fx, ck)
        loop = set(cb.reach)
        self.closure_body_effects(cb, at, name)

    def closure_effects(self, body, t, at, name):
        """map/filter closures must be pure with respect to outer state."""
        ck, ops = self.closure_of_arg(body, t)
        if ck is None or ck not in self.fx.fns:
            return
        cb = body_of(self.fx, ck)
        self.closure_body_effects(cb, at, name + "-closure", pure_only=True)

    def closure_body_effects(self, cb, at, tag, pure_only=False):
        fx, cg = self.fx, self.cg
        path = clean(cb.path)
        problems = []
        # writes through captured &mut state: (*_1.k) ... or calls with &mut * upvar
        for b in sorted(cb.reach):
            blk = cb.blocks[b]
            for st in blk["stmts"]:
                if st["k"] != "assign":
                    continue
                d = st["dst"]
                if d["l"] == 1 and d["p"]:
                    problems.append(("assign-outer", st["at"], "assigns captured state"))
                elif "*" in d["p"]:
                    base = self.ref_base(cb, d["l"])
                    if base == 1:
                        problems.append(("assign-outer", st["at"], "assigns through captured reference"))
        # &mut captured collections passed to calls
        for b, t in cb.calls():
            n = callee_name(t) or ""
            for ai, a in enumerate(t["args"]):
                p = op_place(a)
                if p is None:
                    continue
                ty = cb.local_ty(p["l"])
                if not ty.startswith("&mut "):
                    continue
                if not self.derives_from_upvar(cb, p["l"]):
                    continue
                if n in COMMUTATIVE_MUT and ai == 0 and re.search(r"(HashMap|HashSet|BTreeMap|BTreeSet)<", ty):
                    if pure_only:
                        problems.append(("mutates-outer", t["at"], "adaptor closure mutates captured %s" % ty))
                    continue
                if n == "std::vec::Vec::push" or "Vec<" in ty:
                    problems.append(("mutates-outer", t["at"], "pushes to / mutates captured ordered container %s via %s" % (ty, n)))
                    continue
                if n.startswith(("std::fmt::", "core::fmt::")):
                    continue
                problems.append(("mutates-outer", t["at"], "passes captured &mut state to %s" % n))
        # unordered sources inside the closure are separate inventory entries (found by the scan)
        # return value: for try_for_each the closure returns Result<(), E>
        if not pure_only and cb.local_ty(0) != "()":      # for_each discards the closure's (unit) result
            for lf in cb.trace({"l": 0, "p": []}):
                if lf.kind == "agg" and lf.data[2].get("variant") in ("Ok", "Err", "Continue", "Break"):
                    continue
                if lf.kind == "call" and (callee_name(lf.data[1]) or "").endswith("from_residual"):
                    continue
                if lf.kind == "const":
                    continue
                problems.append(("return-value", cb.fn["at"], "closure returns a computed value"))
        # external effects
        callees = set()
        direct = []
        for b, t in cb.calls():
            ck = t.get("resolved_key") or t.get("callee_key")
            if ck in fx.fns:
                callees.add(ck)
            if callee_name(t) in EFFECTS:
                direct.append(t)
        seen = cg.reachable(callees)
        eff = cg.ext_reach(seen, EFFECTS)
        if direct or eff:
            problems.append(("external-effect", at, "closure body reaches an external effect"))
        if problems:
            for k in sorted({p[0] for p in problems}):
                ps = [p for p in problems if p[0] == k]
                self.findings.append((True, "%s:%s" % (tag, k), path, ps[0][1], "; ".join(p[2] for p in ps[:3])))
        elif not pure_only:
            self.findings.append((False, tag + ":commutative-body", path, at,
                                  "closure only inserts into captured maps/sets or returns Err"))

    def derives_from_upvar(self, cb, l, depth=0):
        if l == 1:
            return True
        if depth > 8:
            return False
        for d in cb.defs.get(l, []):
            if d.kind == "assign":
                rv = d.node["rv"]
                if rv["k"] == "use" and op_place(rv["op"]):
                    if self.derives_from_upvar(cb, op_place(rv["op"])["l"], depth + 1):
                        return True
                elif rv["k"] == "ref":
                    if self.derives_from_upvar(cb, rv["place"]["l"], depth + 1):
                        return True
            else:
                n = callee_name(d.node) or ""
                if n.split("::")[-1] in ("deref", "deref_mut", "as_mut", "borrow_mut") and d.node["args"] and op_place(d.node["args"][0]):
                    if self.derives_from_upvar(cb, op_place(d.node["args"][0])["l"], depth + 1):
                        return True
        return False


_PASS = {"std::option::Option::ok_or_else", "std::option::Option::ok_or", "std::ops::Try::branch", "std::ops::Deref::deref", "std::clone::Clone::clone",
         "std::convert::AsRef::as_ref", "std::borrow::Borrow::borrow", "std::option::Option::as_ref", "std::option::Option::cloned",
         "std::option::Option::copied", "std::option::Option::map", "std::borrow::ToOwned::to_owned"}


def reference_pick_only_compared(ctx, fx, body, bb, t):
    """The element taken by next() (outside a loop) from an unordered collection is only used as the reference of an all-equal
    check: in the REGION of the function (private helpers inlined) it flows - through moves, borrows, payload / field reads,
    lookups of itself in the same collection - only into PartialEq::eq / ne calls and into formatted error text, and every
    comparison's `differs` edge leads to an Err return."""
    from ..core import uses_of_local as uol
    root = fx.root_of(fx.fns[body.key]) if body.key in fx.fns else None
    if root is None or t["dst"]["p"]:
        return False
    b = ctx.region(None, policy="private", key=root["key"], ps=True)
    same = [(i, tt) for (i, tt) in b.calls() if callee_name(tt) == callee_name(t) and tt["at"] == t["at"] and b.blocks[i].get("origin_key", body.key) == body.key]
    if len(same) != 1:
        return False
    i0, t0 = same[0]
    src = b.trace(t0["args"][0], (), lambda x: (callee_name(x) or "").split("::")[-1] in ("keys", "values", "iter"))
    coll = set()
    for l in src:
        if l.kind == "call" and l.data[1]["args"]:
            coll |= set(root_ids(b, l.data[1]["args"][0]))
    if not coll:
        return False
    work, seen, sinks = [t0["dst"]["l"]], set(), []
    while work:
        l = work.pop()
        if l in seen:
            continue
        seen.add(l)
        for (ub, idx, node) in uol(b, l):
            if ub not in b.reach:
                continue
            if idx >= 0:
                if node["k"] != "assign":
                    continue
                rv = node["rv"]
                if rv["k"] == "discr":
                    continue
                if rv["k"] in ("use", "cast", "ref", "rawptr") or (rv["k"] == "agg" and rv.get("agg") in ("tuple", "array", "closure")):
                    if node["dst"]["p"] and node["dst"]["l"] != l:
                        return False          # stored into a field of something else
                    work.append(node["dst"]["l"])
                    continue
                if rv["k"] == "agg" and rv.get("agg") == "adt" and rv.get("variant") in ("Some", "Ok"):
                    work.append(node["dst"]["l"])
                    continue
                return False
            tt = node
            if tt["k"] in ("drop", "switch", "goto", "assert"):
                continue
            if tt["k"] != "call":
                return False
            n = callee_name(tt) or ""
            ai = [k2 for k2, a in enumerate(tt["args"]) if op_place(a) and op_place(a)["l"] == l]
            if not ai:
                continue
            if n in ("std::cmp::PartialEq::eq", "std::cmp::PartialEq::ne"):
                sinks.append((ub, tt))
            elif n in _PASS:
                work.append(tt["dst"]["l"])
            elif n in ("std::ops::Index::index", "std::collections::HashMap::get", "std::collections::BTreeMap::get") and ai == [1] \
                    and set(root_ids(b, tt["args"][0])) <= coll:
                work.append(tt["dst"]["l"])       # looking the picked key up in the collection it came from
            elif n.startswith(("core::fmt::", "std::fmt::")) or "fmt::rt::Argument" in n or n == "std::ops::FromResidual::from_residual":
                continue                          # error text / propagation of the `no element` error
            else:
                return False
    if not sinks:
        return False
    # with every `equal` outcome of these comparisons removed, whatever can still be reached from a comparison returns an error
    equal = set()
    for (ub, tt) in sinks:
        for (e, tb, fa) in b.all_edge_facts():
            if fa[0] == "bool" and fa[1][0] == "call" and fa[1][2] is tt and fa[2] == (not callee_name(tt).endswith("::ne")):
                equal.add(e)
    if not equal:
        return False
    for (ub, tt) in sinks:
        if not b._is_err_return_path(ub, tt["target"], set(), 0, root=True, removed_edges=equal):
            return False
    return True


def allow_owner(fx, cg, fpath, what):
    """The allow-table function an order-sensitive site belongs to: the function itself, or - for a module-private helper -
    the listed function of the same module from which alone (directly or through such helpers) it is called."""
    from ..cg import vis_kind
    if (fpath, what) in ALLOW:
        return fpath
    cands = [f for f in fx.doc["fns"] if clean(f["path"]) == fpath]
    if len(cands) != 1:
        return None
    owners = set()
    seen = set()
    stack = [fx.root_of(cands[0])["key"]]
    while stack:
        k = stack.pop()
        if k in seen:
            continue
        seen.add(k)
        f = fx.fns[k]
        p = clean(f["path"])
        if (p, what) in ALLOW:
            owners.add(p)
            continue
        if f["kind"] not in ("Fn", "AssocFn") or vis_kind(f) != "private" or f.get("impl_trait"):
            return None
        callers = {fx.root_of(fx.fns[ck])["key"] for ck in fx.fns for (cbb, ct, tgt) in cg.sites.get(ck, ()) if tgt == k}
        if not callers:
            return None
        stack.extend(callers)
    if len(owners) == 1:
        o = next(iter(owners))
        of = [f for f in fx.doc["fns"] if clean(f["path"]) == o]
        # same source file = same module (private items are not visible further)
        if len(of) == 1 and (of[0].get("at") or "").split(":")[0] == (cands[0].get("at") or "").split(":")[0]:
            return o
    return None


def scope_keys(ctx):
    fx, cg = ctx.fx, ctx.cg
    roots = []
    for p in ("verifylib::in_toto_verify", "models::metadata::Metablock::verify"):
        f = fx.fn_opt(p)
        if f is None:
            ctx.bad("C13/D1", "anchor " + p, "public anchor not found (failing closed)")
        else:
            roots.append(f["key"])
    return cg.reachable(roots)


_CTX = {}


def run(ctx):
    fx, cg = ctx.fx, ctx.cg
    _CTX["ctx"] = ctx
    seen = scope_keys(ctx)
    ctx.note("scope: %d functions reachable from in_toto_verify / Metablock::verify" % len(seen))
    nsrc = 0
    for k in sorted(seen):
        f = fx.fns[k]
        body = None
        ordinal = {}
        for bi, b in enumerate(f["blocks"]):
            t = b["term"]
            if not t or t["k"] != "call" or b["cleanup"]:
                continue
            n = callee_name(t) or ""
            last = n.split("::")[-1]
            a0 = (t.get("arg_tys") or [""])[0]
            if last not in UNORDERED_SRC or not is_unordered_coll(a0):
                continue
            if last == "into_iter" and norm(t.get("trait")) != "std::iter::IntoIterator":
                continue
            if body is None:
                body = body_of(fx, k)
                ctx.touch_fn(f)
            if bi not in body.reach:
                continue
            nsrc += 1
            fpath = clean(f["path"])
            coll = a0.lstrip("&").replace("mut ", "").split("<")[0].split("::")[-1]
            desc = "%s.%s()" % (coll, last)
            ordinal[desc] = ordinal.get(desc, 0) + 1
            src_key = "%s | %s #%d" % (fpath, desc, ordinal[desc])
            fl = Flow(ctx, fx, cg)
            fl.follow(body, t["dst"]["l"])
            if not fl.findings:
                ctx.bad("C13/D1", src_key, "unordered iterator whose consumer could not be followed (failing closed)", t["at"])
                continue
            sens = [x for x in fl.findings if x[0]]
            if not sens:
                ctx.ok("C13/D1", src_key, "order-insensitive: " + "; ".join("%s (%s)" % (x[1], x[4]) for x in fl.findings), t["at"])
                continue
            unallowed = []
            allowed = []
            for (s_, what, fpath2, at, detail) in sens:
                owner = allow_owner(fx, cg, fpath2, what)
                if owner is not None:
                    allowed.append((what, ALLOW[(owner, what)] + ("" if owner == fpath2 else " [in %s, a private helper only called from %s]" % (fpath2, owner))))
                else:
                    unallowed.append((what, fpath2, at, detail))
            if not unallowed:
                ctx.ok("C13/D1", src_key, "order-sensitive consumer(s) accepted by the allow-table: " +
                       "; ".join("%s - %s" % a for a in allowed), t["at"])
            else:
                for (what, fpath2, at, detail) in unallowed:
                    ctx.bad("C13/D1", "%s => %s in %s" % (src_key, what, fpath2),
                            "verdict may depend on hash order: " + detail, at)
    ctx.note("%d unordered iterator sources in scope" % nsrc)
    # ---- D2 ambient reads
    amb = cg.ext_reach(seen, AMBIENT)
    found = 0
    for (k, bi, t) in amb:
        f = fx.fns[k]
        fpath = clean(f["path"])
        n = callee_name(t)
        key = "%s | %s" % (fpath, n)
        found += 1
        if n in CLOCKS and _only_compared_with_expiry(fx, k, t):
            ctx.ok("C13/D2", key, "the expiry guard itself (C06): the clock value is only ever compared with a layout's `expires`; "
                   "the property fixes an unexpired clock", t["at"])
        elif (fpath, n) in ALLOW_AMBIENT:
            ctx.ok("C13/D2", key, "allowed: " + ALLOW_AMBIENT[(fpath, n)], t["at"])
        elif n.startswith("ring::rand") and _only_via_signing(cg, fx, seen, k):
            ctx.ok("C13/D2", key, "signing RNG, only reachable through PrivateKey::sign (inspection links are unsigned data, the "
                   "verdict does not depend on signature bytes)", t["at"])
        else:
            ctx.bad("C13/D2", key, "ambient non-determinism read on the verification path: " + " -> ".join(clean(x) for x in cg.chain(seen, k)[:8]), t["at"])
    # process-wide mutable state: a static with interior mutability read or written on the verification path makes the verdict
    # depend on what was verified before (caches, counters, lazily initialised tables)
    MUT_WRAPPERS = ("Mutex<", "RwLock<", "RefCell<", "Cell<", "Atomic", "OnceLock<", "OnceCell<", "LazyLock<", "Lazy<", "LocalKey<", "UnsafeCell<")
    statics = {}
    def walk(n, f):
        if isinstance(n, dict):
            if "static" in n and isinstance(n["static"], str):
                statics.setdefault((n["static"], n.get("ty") or ""), set()).add(clean(f["path"]))
            for v in n.values():
                walk(v, f)
        elif isinstance(n, list):
            for v in n:
                walk(v, f)
    for k in seen:
        f = fx.fns[k]
        if not f.get("exp"):
            walk(f["blocks"], f)
    mutable = {k: v for k, v in statics.items() if any(w in k[1] for w in MUT_WRAPPERS) or " mut " in k[1]}
    for (name, ty), users in sorted(mutable.items()):
        ctx.bad("C13/D2", "static %s" % name, "process-wide mutable state (%s) used on the verification path by %s: the verdict can depend on "
                "earlier verifications in the same process" % (ty, sorted(users)[:4]))
    ctx.ok("C13/D2", "ambient scan", "%d ambient reads and %d statics (%d with interior mutability) among %d functions in scope, each classified above" % (
        found, len(statics), len(mutable), len(seen)))


CLOCKS = {"chrono::Utc::now", "chrono::Local::now", "std::time::SystemTime::now"}


def _only_compared_with_expiry(fx, k, t):
    """The value read from the clock flows nowhere but into ordering comparisons whose other operand is an `expires` field."""
    from .shared import flows_only_to
    if t["dst"]["p"]:
        return False
    b = _CTX["ctx"].region(None, policy="private", key=fx.root_of(fx.fns[k])["key"]) if fx.fns[k]["kind"] != "Closure" else body_of(fx, k)
    # the same call inside the region (module-private helpers inlined)
    same = [(i, tt) for (i, tt) in b.calls() if callee_name(tt) == callee_name(t) and tt["at"] == t["at"] and b.blocks[i].get("origin_key", k) == k]
    if len(same) != 1:
        return False
    t = same[0][1]
    sinks = set()
    for (i, tt) in b.calls():
        if callee_name(tt) in ("std::cmp::PartialOrd::lt", "std::cmp::PartialOrd::le", "std::cmp::PartialOrd::gt", "std::cmp::PartialOrd::ge",
                               "std::cmp::Ord::cmp", "std::cmp::PartialOrd::partial_cmp") \
                and len(tt["args"]) == 2:
            for ai in (0, 1):
                lv = b.trace(tt["args"][1 - ai])
                if lv and all(l.path[-1:] == (("f", "expires"),) for l in lv):
                    sinks.add((i, ai))
    return bool(sinks) and not flows_only_to(b, t["dst"]["l"], sinks)


def _only_via_signing(cg, fx, seen, k):
    chain = cg.chain(seen, k)
    return any(p.endswith("PrivateKey::sign") or "PrivateKey::sign" in p for p in chain) or fx.fns[k]["path"].startswith("crypto::PrivateKey::")
