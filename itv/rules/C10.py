"""C10 - canonical JSON is deterministic, order-insensitive, loss-free and integer-only."""
from . import canon

EXPLANATION = (
    "Structural rules on the canonicaliser (convert + Value::write + private helpers): D1 objects are held in a "
    "BTreeMap<String, _> filled by a loop over every member of the source object (no early exit); D2 the number type has "
    "exactly the variants I64(i64) / U64(u64), numbers are taken with as_i64 / as_u64 only, a number that is neither is "
    "turned into Err, and no float accessor or float cast is reachable; D3 every site that appends to the output buffer is "
    "classified: the single bytes are exactly [ ] { } , : the constant words exactly null true false, everything else is an "
    "itoa-formatted integer or a serde_json-escaped string; D4 nothing reachable from canonicalize iterates a HashMap / "
    "HashSet or reads clock, randomness or environment; D5 string values and object keys go through the same encoder and "
    "the public canonicalize returns the writer's bytes without post-processing.")
DECIDED = ["D1 sorted objects filled from every member", "D2 integers only", "D3 structural byte set", "D4 no ambient / unordered input", "D5 one string encoder, no post-processing"]
UNDECIDED = ["'parses back to the identical value' and code-point ordering as value-level statements (follow from D1/D5 + serde_json / BTreeMap<String> contracts)"]
TRUSTED = ["serde_json::to_string emits a valid, loss-free JSON string literal", "BTreeMap<String,_> iterates in byte (= code point) order", "itoa renders i64/u64 exactly"]
ASSUMPTIONS = []
FLOORS = {"C10/D1": 3, "C10/D2": 5, "C10/D3": 3, "C10/D4": 2, "C10/D5": 3}


def run(ctx):
    canon.resolve_names(ctx)
    canon.check_convert(ctx, "C10/D2", "C10/D1")
    canon.check_member_order(ctx, "C10/D1")
    canon.check_writer(ctx, "C10/D3", "C10/D5")
    canon.check_no_ambient(ctx, "C10/D4")
    canon.check_public_canonicalize(ctx, "C10/D5")
