"""C01 - only a layout validly signed by every trusted owner key is enforced."""
from ..core import (callee_name, op_place, op_const, proj_path, uses_of_local, leaf_s, OK, F0, SOME)
from ..guards import root_ids
from ..pipeline import Pipeline, GATE
from . import shared

EXPLANATION = (
    "Dominance and provenance rules on the REGION super-graph of in_toto_verify (private helpers inlined, "
    "path-sensitive in the variants of Result/Option temporaries). D1: exactly one Metablock::verify call has the "
    "caller's layout as receiver and its Ok outcome edge-dominates every file/process effect, every other stage "
    "call and every Ok return. D2: the unverified parameter flows nowhere but into that receiver, and every read "
    "of a LayoutMetadata field in the region reads the gate's Ok payload; Metablock::verify returns a clone of "
    "self.metadata whose canonical bytes are what PublicKey::verify is given. D3: the threshold is len() of the "
    "caller's key map and the keys are values() of the same map.")
DECIDED = ["D1 gate dominance", "D2 enforced layout = verified layout (no read of the unverified block)",
           "D3 threshold = number of caller keys, keys = caller's key objects", "D4 zero/alias rejection via C04 D1-D5 (re-checked here)"]
UNDECIDED = ["ring accepts only valid signatures", "injectivity of canonical bytes (structural part in C05)"]
TRUSTED = ["ring signature verification"]
ASSUMPTIONS = ["len() as u32 does not truncate (fewer than 2^32 caller keys)"]
FLOORS = {"C01/D1": 9, "C01/D2": 7, "C01/D3": 2, "C04/D1": 1, "C04/D4": 3}


def run(ctx):
    P = Pipeline(ctx)
    if not P.ok:
        ctx.bad("C01/D1", "anchor", "verifylib::in_toto_verify not found (failing closed)")
        return
    b = P.b
    if P.gate is None:
        ctx.bad("C01/D1", "gate", "expected exactly one Metablock::verify call whose receiver is parameter `layout`, found %d" % len(P.gates))
        return
    gbb, gt = P.gate
    ok_edges, err_edges = P.ok_edges(gbb)
    ctx.inst("C01/D1", "gate", bool(ok_edges), "Metablock::verify(layout, ..) at %s; Ok-outcome edge(s): %s" % (P.where(gbb), ok_edges), gt["at"])
    if not ok_edges:
        return
    # ---- D1: everything else is dominated by the gate's Ok edge
    stage_calls = []
    for name, lst in (("file read", P.file_reads), ("file write", P.file_writes), ("process spawn", P.spawns),
                      ("inspection run", P.runs), ("sub-layout recursion", P.recursions), ("clock read", P.nows),
                      ("link signature check", P.link_verifies), ("summary construction", P.summaries)):
        for (i, t) in lst:
            stage_calls.append((name, i, t))
    for (name, i, t) in stage_calls:
        key = "%s %s%s" % (name, callee_name(t).split("::")[-1], P.inst_of(i).rsplit("@", 1)[0])
        ctx.inst("C01/D1", key, P.dominated_by_ok(gbb, i),
                 "%s is %sedge-dominated by the gate's Ok outcome" % (callee_name(t), "" if P.dominated_by_ok(gbb, i) else "NOT "), t["at"])
    # any call to a local function that is not inlined and not the gate
    for i, t in b.calls():
        if t.get("callee_crate") == "in_toto" and i != gbb and not P.dominated_by_ok(gbb, i):
            ctx.bad("C01/D1", "call before gate: " + callee_name(t), "local call not dominated by the gate's Ok outcome", t["at"])
    # Ok returns
    ok_src = b.trace({"l": 0, "p": []}, (OK, F0))
    n_ok = 0
    for lf in ok_src:
        if lf.kind in ("call",):
            bb = lf.data[0]
        elif lf.kind in ("agg", "binop", "unop", "discr", "other"):
            bb = lf.data[0]
        else:
            ctx.bad("C01/D1", "Ok return source", "Ok payload of in_toto_verify derives from %s" % leaf_s(b, lf))
            continue
        n_ok += 1
        ctx.inst("C01/D1", "Ok return via %s" % leaf_s(b, lf).split("@")[0], P.dominated_by_ok(gbb, bb),
                 "Ok payload source at bb%d is %sdominated by the gate's Ok outcome" % (bb, "" if P.dominated_by_ok(gbb, bb) else "NOT "))
    if n_ok == 0:
        ctx.bad("C01/D1", "Ok return", "no Ok return source found (cannot show the gate precedes success)")
    # ---- D2: the unverified parameter only flows into the gate receiver
    bad_uses = shared.flows_only_to(b, 1, {(gbb, 0)})
    ctx.inst("C01/D2", "unverified layout parameter", not bad_uses,
             "parameter `layout` is used only as the receiver of the gate call" if not bad_uses else
             "parameter `layout` is also used at: %s" % "; ".join(bad_uses[:4]))
    # every read of a LayoutMetadata field reads the verified layout
    reads = shared.field_reads(b, "models::layout::metadata::LayoutMetadata::")
    by_field = {}
    for (bb, prefix, fname, at) in reads:
        okv = P.is_verified_layout(prefix)
        by_field.setdefault((fname, okv), []).append((bb, at, prefix))
    for (fname, okv), lst in sorted(by_field.items()):
        if okv:
            ctx.ok("C01/D2", "read of LayoutMetadata.%s" % fname, "%d read(s), all of the gate's Ok payload" % len(lst), lst[0][1])
        else:
            for (bb, at, prefix) in lst:
                ctx.bad("C01/D2", "read of LayoutMetadata.%s in %s" % (fname, b.origin(bb)),
                        "reads a layout that is not the gate's Ok payload: %s" % P.leaves_s(prefix), at)
    # arguments of type LayoutMetadata handed to non-inlined calls
    for i, t in b.calls():
        for ai, ty in enumerate(t.get("arg_tys") or []):
            if "LayoutMetadata" in ty and "Builder" not in ty and i != gbb:
                # a layout wrapped in Result / Option / ControlFlow (a helper's `Ok(layout)` on its way through `?`): the payload counts
                tyn = ty.replace("&", "").replace("mut ", "").strip()
                wrap = ()
                if tyn.startswith("std::result::Result<") and tyn[len("std::result::Result<"):].lstrip().startswith("models::layout::metadata::LayoutMetadata"):
                    wrap = (OK, F0)
                elif tyn.startswith("std::option::Option<") and tyn[len("std::option::Option<"):].lstrip().startswith("models::layout::metadata::LayoutMetadata"):
                    wrap = (SOME, F0)
                elif tyn.startswith("std::ops::ControlFlow<") and tyn.rstrip(">").rstrip().endswith("models::layout::metadata::LayoutMetadata"):
                    wrap = (("v", "Continue"), F0)
                okv = P.is_verified_layout(t["args"][ai], (), wrap)
                ctx.inst("C01/D2", "LayoutMetadata argument of %s" % callee_name(t), okv,
                         "argument %d %s" % (ai, "is the gate's Ok payload" if okv else "is NOT the gate's Ok payload: " + P.leaves_s(t["args"][ai])), t["at"])
    shared.check_verify_payload(ctx, "C01/D2")
    # ---- D3: threshold and keys
    thr = b.trace(gt["args"][1])
    okt = len(thr) == 1 and thr[0].kind == "call" and callee_name(thr[0].data[1]) == "std::collections::HashMap::len" \
        and root_ids(b, thr[0].data[1]["args"][0]) == frozenset([("param", 2, ())])
    ctx.inst("C01/D3", "threshold", okt, "threshold argument derives from %s%s" % (
        P.leaves_s(gt["args"][1]), "" if okt else " - expected exactly layout_keys.len()"), gt["at"])
    keys = b.trace(gt["args"][2])
    okk = len(keys) == 1 and keys[0].kind == "call" and callee_name(keys[0].data[1]) in (
        "std::collections::HashMap::values", "std::collections::HashMap::into_values") \
        and root_ids(b, keys[0].data[1]["args"][0]) == frozenset([("param", 2, ())])
    ctx.inst("C01/D3", "authorised keys", okk, "key iterator derives from %s%s" % (
        P.leaves_s(gt["args"][2]), "" if okk else " - expected exactly layout_keys.values()"), gt["at"])
    # ---- D4
    shared.check_threshold_core(ctx, prefix="C04")
