"""Rule fragments shared by several properties."""
from ..core import (Body, callee_name, norm, op_place, op_const, proj_path, uses_of_local, leaf_s, as_cmp, as_pred,
                    OK, ERR, SOME, F0, F1, ELEM, short)
from ..guards import root_ids, same_root, dominating_cmps, const_int, int_interval_facts, body_of, def_call


def flows_only_to(b, local, sinks, depth=0, seen=None):
    """Forward: every use of `local` is a plain copy/move/reborrow that ends as one of the call
    arguments in `sinks` = {(call bb, arg index)}.  Returns descriptions of offending uses."""
    if seen is None:
        seen = set()
    if local in seen or depth > 30:
        return []
    seen.add(local)
    bad = []
    for (bb, idx, node) in uses_of_local(b, local):
        if idx >= 0:
            st = node
            if st["k"] != "assign":
                continue
            rv = st["rv"]
            src = None
            if rv["k"] in ("use", "cast"):
                src = op_place(rv["op"])
            elif rv["k"] == "ref":
                src = rv["place"]
            if src is None or src["l"] != local or proj_path(src) or st["dst"]["p"]:
                bad.append("%s (%s)" % (st["at"], b.origin(bb)))
                continue
            bad += flows_only_to(b, st["dst"]["l"], sinks, depth + 1, seen)
        else:
            t = node
            if t["k"] == "drop":
                continue
            if t["k"] == "call":
                hit = False
                for ai, a in enumerate(t["args"]):
                    p = op_place(a)
                    if p is not None and p["l"] == local:
                        if proj_path(p) or (bb, ai) not in sinks:
                            bad.append("argument %d of %s at %s" % (ai, callee_name(t), t["at"]))
                        hit = True
                if not hit:
                    bad.append("%s (%s)" % (t["at"], b.origin(bb)))
            elif t["k"] == "goto":
                continue
            else:
                bad.append("%s (%s)" % (t["at"], b.origin(bb)))
    return bad


def field_reads(b, adt_prefix):
    """All places in reachable code that project a field of an ADT whose variant path starts with
    adt_prefix: [(bb, prefix place (up to, excluding, the field), field name, at)]."""
    out = []

    def scan_place(p, bb, at):
        for k, e in enumerate(p["p"]):
            if isinstance(e, dict) and "f" in e and e.get("of", "").startswith(adt_prefix):
                out.append((bb, {"l": p["l"], "p": p["p"][:k]}, e["f"], at))

    def scan(node, bb, at):
        if isinstance(node, dict):
            if "l" in node and "p" in node and isinstance(node["p"], list):
                scan_place(node, bb, at)
                return
            for k, v in node.items():
                scan(v, bb, at)
        elif isinstance(node, list):
            for v in node:
                scan(v, bb, at)
    for i in sorted(b.reach):
        blk = b.blocks[i]
        for st in blk["stmts"]:
            scan(st, i, st.get("at"))
        if blk["term"]:
            scan(blk["term"], i, blk["term"].get("at"))
    return out


def agg_sites(fx, adt_path):
    """Aggregate-construction sites of a local ADT: [(fn path, bb, fn from expansion?, rvalue)]."""
    out = []
    for f in fx.doc["fns"]:
        for bi, b in enumerate(f["blocks"]):
            if b["cleanup"]:
                continue
            for st in b["stmts"]:
                if st["k"] == "assign" and st["rv"]["k"] == "agg" and st["rv"].get("agg") == "adt" and st["rv"].get("adt") == adt_path:
                    out.append((f["path"], bi, f.get("exp"), st["rv"]))
    return out


# ---------------------------------------------------------------------------------------------
# Metablock::verify core (C04 D1-D5), also used by C01/D2,D4 and C02/D3
# ---------------------------------------------------------------------------------------------
VERIFY = "models::metadata::Metablock::verify"
PK_VERIFY = "crypto::PublicKey::verify"
_cache = {}


def verify_body(ctx):
    """REGION of Metablock::verify: module-private helpers inlined, path-sensitive."""
    if ctx.fx.fn_opt(VERIFY) is None:
        return None
    return ctx.region(VERIFY, policy="private", ps=True)


def check_verify_payload(ctx, rule):
    """Ok payload of Metablock::verify is a clone of self.metadata, and the message given to
    PublicKey::verify is derived from self.metadata.to_bytes() only."""
    b = verify_body(ctx)
    if b is None:
        ctx.bad(rule, "Metablock::verify", "public anchor not found (failing closed)")
        return
    leaves = b.trace({"l": 0, "p": []}, (OK, F0))
    okp = bool(leaves) and all(lf.kind == "param" and lf.data == 1 and lf.path[:1] == (("f", "metadata"),) for lf in leaves)
    ctx.inst(rule, "Metablock::verify Ok payload", okp, "Ok payload derives from {%s}%s" % (
        ", ".join(leaf_s(b, l) for l in leaves), "" if okp else " - expected exactly self.metadata"))
    pk = b.calls_named(PK_VERIFY)
    if not pk:
        ctx.bad(rule, "Metablock::verify message", "no call to PublicKey::verify found")
        return
    for (i, t) in pk:
        msg = msg_sources(ctx.fx, b, t["args"][1])
        okm = bool(msg["tobytes_roots"]) and all(r == ("param", 1, (("f", "metadata"),)) for r in msg["tobytes_roots"]) and not msg["other"]
        ctx.inst(rule, "message verified by PublicKey::verify", okm,
                 "message bytes derive from to_bytes() of %s, post-processed by %s; other non-constant sources: %s" % (
                     sorted(msg["tobytes_roots"]), msg["post"], msg["other"]), t["at"])


def _closure_of(b, op):
    p = op_place(op)
    if p is None:
        return None
    d = b.single_def(p["l"])
    if d and d.kind == "assign" and d.node["rv"].get("agg") == "closure":
        return d.node["rv"]["closure_key"]
    return None


def msg_sources(fx, b, op, path=()):
    """Derivation of a message operand: which values' canonical bytes (to_bytes / canonicalize) it comes
    from, which post-processing steps (with constant arguments; local functions by path) it went through,
    and anything else non-constant.  Closures of Result::and_then / map are followed."""
    res = {"tobytes_roots": set(), "post": [], "other": [], "canon": []}
    seen = set()

    def walk(body, x, path, depth):
        if depth > 14:
            res["other"].append("depth")
            return
        for lf in body.trace(x, path):
            if lf.kind == "const":
                continue
            if lf.kind == "call":
                bb, t = lf.data
                if (body.key, bb) in seen:
                    continue
                seen.add((body.key, bb))
                n = callee_name(t) or ""
                last = n.split("::")[-1]
                if last == "to_bytes" and ("MetadataWrapper" in n or "Metadata" in n):
                    for r in root_ids(body, t["args"][0]):
                        res["tobytes_roots"].add(r)
                    continue
                if n.endswith("DataInterchange::canonicalize"):
                    res["canon"].append((body, bb, t))
                    continue
                if n in ("std::string::String::from_utf8", "core::str::from_utf8", "std::str::from_utf8",
                         "std::string::String::from_utf8_lossy"):
                    res["post"].append(last)
                    walk(body, t["args"][0], (), depth + 1)
                    continue
                if n.endswith("::replace") or n.endswith("::replacen"):
                    consts = [(op_const(a) or {}).get("str") for a in t["args"][1:]]
                    res["post"].append("%s%r" % (last, tuple(consts)))
                    walk(body, t["args"][0], (), depth + 1)
                    continue
                if n in ("std::result::Result::and_then", "std::result::Result::map", "std::option::Option::map", "std::option::Option::and_then"):
                    ck = _closure_of(body, t["args"][1])
                    if ck in fx.fns:
                        cb = body_of(fx, ck)
                        # what the closure returns, in terms of its argument (param 2)
                        rpath = (OK, F0) if last == "and_then" and "Result" in n else ((SOME, F0) if last == "and_then" else ())
                        for cl in cb.trace({"l": 0, "p": []}, rpath):
                            if cl.kind == "param" and cl.data == 2:
                                continue
                            if cl.kind == "call":
                                ct = cl.data[1]
                                ckk = ct.get("resolved_key") or ct.get("callee_key")
                                if ckk in fx.fns and ct.get("callee_crate") == "in_toto":
                                    res["post"].append("local:" + fx.fns[ckk]["path"])
                                    for a in ct["args"]:
                                        for al in cb.trace(a):
                                            if not (al.kind == "param" and al.data == 2) and al.kind != "const":
                                                res["other"].append("closure:" + leaf_s(cb, al))
                                    continue
                            if cl.kind != "const":
                                res["other"].append("closure:" + leaf_s(cb, cl))
                        walk(body, t["args"][0], (OK, F0) if "Result" in n else (SOME, F0), depth + 1)
                        continue
                ck = t.get("resolved_key") or t.get("callee_key")
                if ck in fx.fns and t.get("callee_crate") == "in_toto":
                    res["post"].append("local:" + fx.fns[ck]["path"])
                    for a in t["args"]:
                        walk(body, a, (), depth + 1)
                    continue
                res["other"].append(short(n))
            else:
                res["other"].append(leaf_s(body, lf))
    walk(b, op, path, 0)
    return res


def _whole_call(b, place):
    """(bb, call terminator) if the place holds exactly the result of one call (through moves, tuples, Some(..) wrappers)."""
    if not proj_path(place):
        dc = def_call(b, {"copy": place})
        if dc:
            return dc
    lv = b.trace(place)
    if lv and all(l.kind == "call" and not l.path for l in lv) and len({l.data[0] for l in lv}) == 1:
        return (lv[0].data[0], lv[0].data[1])
    return None


def check_threshold_core(ctx, prefix="C04"):
    """C04 D1-D5 on Metablock::verify."""
    fx = ctx.fx
    b = verify_body(ctx)
    if b is None:
        ctx.bad(prefix + "/D1", "Metablock::verify", "public anchor not found (failing closed)")
        return
    THR = 2  # parameter index of `threshold`
    # Ok returns
    ok_blocks = []
    for lf in b.trace({"l": 0, "p": []}, (OK,)):
        pass
    for d in b.defs.get(0, []):
        if d.kind == "assign" and d.node["rv"]["k"] == "agg" and d.node["rv"].get("variant") == "Ok":
            ok_blocks.append(d.bb)
    if not ok_blocks:
        ctx.bad(prefix + "/D1", "Ok return", "no `Ok(..)` construction found in Metablock::verify")
        return
    # D1: threshold >= 1 on every Ok return
    for ob in ok_blocks:
        lo, hi = int_interval_facts(b, ob, {"copy": {"l": THR, "p": []}})
        ctx.inst(prefix + "/D1", "threshold >= 1 before Ok@%d" % ok_blocks.index(ob), lo is not None and lo >= 1,
                 "dominating comparisons give threshold in [%s, %s]" % (lo, hi), b.at(ob))
    # D2: the table the signatures' key ids are looked up in is keyed by each key's own key_id (whatever fills it:
    #     map + collect, an insertion loop, ...)
    CONTENT = {"__content__": True}
    lookups = [(i, t) for (i, t) in b.calls_named("std::collections::HashMap::get", "std::collections::BTreeMap::get")
               if "PublicKey" in (t.get("arg_tys") or [""])[0]]
    if not lookups:
        ctx.bad(prefix + "/D2", "authorised key table", "no lookup of a signature's key id in a table of authorised keys (cannot show de-duplication by key id)")
    for (i, t) in lookups:
        kl = b.trace(t["args"][0], (ELEM, F0), None, CONTENT)
        vl = b.trace(t["args"][0], (ELEM, F1), None, CONTENT)
        vroots = frozenset((l.kind, l.data if l.kind == "param" else l.data[0], l.path) for l in vl)
        okc = bool(kl) and bool(vl) and all(l.kind == "call" and callee_name(l.data[1]) == "crypto::PublicKey::key_id" and not l.path and
                                            root_ids(b, l.data[1]["args"][0]) == vroots for l in kl) \
            and all(l.kind == "param" and l.data == 3 and l.path == (ELEM,) for l in vl)
        ctx.inst(prefix + "/D2", "authorised key table keyed by PublicKey::key_id", okc,
                 "table key = {%s}, value = {%s}" % (", ".join(leaf_s(b, l) for l in kl), ", ".join(leaf_s(b, l) for l in vl)), t["at"])
    # D3: signatures visited once per key id: the counting loop iterates a map keyed by Signature::key_id
    loop_next = None
    # the counting loop: the innermost loop around the call that checks a signature
    for (vi, vt_) in b.calls_named(PK_VERIFY):
        lps = [l for l in b.loops().values() if vi in l]
        if not lps:
            continue
        lp = min(lps, key=len)
        for i, t in b.calls_named("std::iter::Iterator::next"):
            if i in lp and all(b.dom_plain(i, e[0]) for (e, tb) in b.back_edges() if tb in lp and b.loop_blocks(tb) == lp):
                loop_next = (i, t)
    if loop_next is None:
        ctx.bad(prefix + "/D3", "counting loop", "no loop over signatures found")
        return
    li, lt = loop_next
    a0 = (lt.get("arg_tys") or [""])[0]
    uniq = ("hash_map::" in a0 or "btree_map::" in a0 or "btree::map::" in a0) and "KeyId" in a0
    detail = "counting loop iterates %s" % a0
    if uniq:
        kl = b.trace(lt["dst"], (SOME, F0, F0), None, CONTENT)
        vl = b.trace(lt["dst"], (SOME, F0, F1), None, CONTENT)
        vroots = frozenset((l.kind, l.data if l.kind == "param" else l.data[0], l.path) for l in vl)
        okk = bool(kl) and bool(vl) and all(l.kind == "call" and callee_name(l.data[1]) == "crypto::Signature::key_id" and not l.path and
                                            root_ids(b, l.data[1]["args"][0]) == vroots for l in kl) \
            and all(l.kind == "param" and l.data == 1 and l.path == (("f", "signatures"), ELEM) for l in vl)
        detail += "; map entries are (Signature::key_id(sig), sig) over self.signatures: %s" % okk
        uniq = uniq and okk
    ctx.inst(prefix + "/D3", "each signature key id counted at most once", uniq, detail, lt["at"])
    # D4: the counter
    # find the countdown local: compared with 0 on the Ok path
    counter = None
    for ob in ok_blocks:
        for (e, op, x, y) in dominating_cmps(b, ob):
            for (u, v, o) in ((x, y, op), (y, x, {"Lt": "Gt", "Le": "Ge", "Gt": "Lt", "Ge": "Le", "Eq": "Eq", "Ne": "Ne"}[op])):
                c = const_int(b, v)
                p = op_place(u)
                if c == 0 and p is not None and o in ("Eq", "Le"):
                    # resolve read temporaries and the return value of an inlined helper down to the variable itself
                    l = p["l"]
                    for _ in range(12):
                        d = b.single_def(l)
                        q = op_place(d.node["rv"]["op"]) if (d and d.kind == "assign" and d.node["rv"]["k"] == "use") else None
                        if q is not None and not q["p"] and not (1 <= q["l"] <= b.argc):
                            l = q["l"]
                        else:
                            break
                    if b.local_ty(l) in ("u32", "usize", "u64") and l != THR:
                        counter = l
    count_up = False
    if counter is not None and len(b.defs.get(counter, [])) == 1:
        # `needed = threshold - count`: the zero test on `needed` is `count >= threshold` on the count-up variable
        d = b.single_def(counter)
        rv_ = d.node["rv"] if (d and d.kind == "assign") else None
        sub = None
        if rv_ and rv_["k"] == "binop" and rv_["op"].startswith("Sub"):
            sub = rv_
        elif rv_ and rv_["k"] == "use" and op_place(rv_["op"]) is not None and proj_path(op_place(rv_["op"])) == (("f", "0"),):
            dt = b.single_def(op_place(rv_["op"])["l"])
            if dt and dt.kind == "assign" and dt.node["rv"]["k"] == "binop" and dt.node["rv"]["op"].startswith("Sub"):
                sub = dt.node["rv"]
        if sub is not None and root_ids(b, sub["a"]) == frozenset([("param", THR, ())]) and op_place(sub["b"]) is not None:
            l = op_place(sub["b"])["l"]
            for _ in range(12):
                d2 = b.single_def(l)
                r2 = d2.node["rv"] if (d2 and d2.kind == "assign") else None
                q = op_place(r2["op"]) if (r2 and r2["k"] in ("use", "cast")) else None
                if q is not None and not q["p"] and not (1 <= q["l"] <= b.argc):
                    l = q["l"]
                else:
                    break
            if b.local_ty(l) in ("u32", "usize", "u64") and len(b.defs.get(l, [])) >= 2:
                counter, count_up = l, True
    if counter is None:
        # the other spelling: count the good signatures up from 0 and require `count >= threshold` on the Ok path
        for ob in ok_blocks:
            for (e, op, x, y) in dominating_cmps(b, ob):
                for (u, v, o) in ((x, y, op), (y, x, {"Lt": "Gt", "Le": "Ge", "Gt": "Lt", "Ge": "Le", "Eq": "Eq", "Ne": "Ne"}[op])):
                    if o not in ("Ge", "Eq") or root_ids(b, v) != frozenset([("param", THR, ())]):
                        continue
                    p = op_place(u)
                    if p is None or p["p"]:
                        continue
                    l = p["l"]
                    for _ in range(12):
                        d = b.single_def(l)
                        rv_ = d.node["rv"] if (d and d.kind == "assign") else None
                        q = op_place(rv_["op"]) if (rv_ and rv_["k"] in ("use", "cast")) else None
                        if q is not None and not q["p"] and not (1 <= q["l"] <= b.argc):
                            l = q["l"]
                        else:
                            break
                    if b.local_ty(l) in ("u32", "usize", "u64") and len(b.defs.get(l, [])) >= 2:
                        counter, count_up = l, True
    if counter is None:
        ctx.bad(prefix + "/D5", "Ok return guarded by counter == 0", "no dominating `counter == 0` (or `!(counter > 0)`) fact, and no `count >= threshold` fact, on the Ok return")
        return
    if count_up:
        ctx.ok(prefix + "/D5", "Ok return guarded by counter == 0", "Ok return is edge-dominated by `%s >= threshold` (count-up form)" % b.local_name(counter), b.at(ok_blocks[0]))
    else:
        ctx.ok(prefix + "/D5", "Ok return guarded by counter == 0", "Ok return is edge-dominated by `%s == 0`" % b.local_name(counter), b.at(ok_blocks[0]))
    inits, decs, other = [], [], []
    for d in b.defs.get(counter, []):
        if count_up:
            rv = d.node["rv"] if d.kind == "assign" else None
            if rv and rv["k"] == "use" and (op_const(rv["op"]) or {}).get("int") == 0:
                inits.append(d)
            elif rv and rv["k"] == "binop" and rv["op"].startswith("Add") and const_int(b, rv["b"]) == 1 and op_place(rv["a"]) and op_place(rv["a"])["l"] == counter:
                decs.append(d)
            elif rv and rv["k"] == "use" and op_place(rv["op"]) is not None and proj_path(op_place(rv["op"])) == (("f", "0"),):
                dt = b.single_def(op_place(rv["op"])["l"])
                if dt and dt.kind == "assign" and dt.node["rv"]["k"] == "binop" and dt.node["rv"]["op"].startswith("Add") and const_int(b, dt.node["rv"]["b"]) == 1:
                    decs.append(d)
                else:
                    other.append(d)
            else:
                other.append(d)
            continue
        if d.kind != "assign":
            other.append(d)
            continue
        rv = d.node["rv"]
        if rv["k"] == "use":
            q = op_place(rv["op"])
            if q is not None and proj_path(q) == (("f", "0"),):
                dt = b.single_def(q["l"])
                if dt and dt.kind == "assign" and dt.node["rv"]["k"] == "binop" and dt.node["rv"]["op"].startswith("Sub") \
                        and op_place(dt.node["rv"]["a"]) and const_int(b, dt.node["rv"]["b"]) == 1:
                    decs.append(d)
                    continue
            if q is not None and not q["p"] and root_ids(b, rv["op"]) == frozenset([("param", THR, ())]):
                inits.append(d)
                continue
            if q is None and op_const(rv["op"]) is not None:
                other.append(d)
                continue
        elif rv["k"] == "binop" and rv["op"] in ("Sub", "SubUnchecked") and const_int(b, rv["b"]) == 1 \
                and op_place(rv["a"]) and op_place(rv["a"])["l"] == counter:
            decs.append(d)
            continue
        other.append(d)
    ctx.inst(prefix + "/D4", "counter initialised from threshold only", len(inits) == 1 and not other,
             "%d initialisation(s) from %s, %d step(s) by one, %d other assignment(s)" % (len(inits), "0 (count-up form)" if count_up else "`threshold`", len(decs), len(other)))
    ctx.inst(prefix + "/D4", "counter has a decrement", len(decs) >= 1, "%d step site(s)" % len(decs))
    pkv = b.calls_named(PK_VERIFY)
    for d in decs:
        # dominated by Some-edge of authorised.get(sig key id) and Ok-edge of PublicKey::verify(that key, msg, that sig)
        facts = b.facts_dominating(d.bb)
        got_some = None
        got_ok = None
        for (e, f) in facts:
            if f[0] != "variant":
                continue
            if f[2] == "Some":
                lv = b.trace(f[1], (SOME, F0))
                for lf in lv:
                    pass
                dc = _whole_call(b, f[1])
                if dc and callee_name(dc[1]) in ("std::collections::HashMap::get", "std::collections::BTreeMap::get"):
                    got_some = (e, dc)
            if f[2] == "Ok":
                dc = _whole_call(b, f[1])
                if dc and callee_name(dc[1]) == PK_VERIFY:
                    got_ok = (e, dc)
        ok4 = got_some is not None and got_ok is not None
        detail = "decrement dominated by Some(authorised.get(..)): %s, by Ok(PublicKey::verify(..)): %s" % (got_some is not None, got_ok is not None)
        if ok4:
            (_, (gb, gt_)) = got_some
            (_, (vb, vt)) = got_ok
            # lookup key = map key of the iterated (key id, signature) pair; verified signature = its value;
            # verifying key = value of the authorised table found by that lookup
            # lookup key = the key id of the very signature that is verified; verifying key = what that lookup found
            sig_roots = root_ids(b, vt["args"][2])
            lkl = b.trace(gt_["args"][1], (), None, {"__content__": True})
            same_sig = bool(lkl) and all(l.kind == "call" and callee_name(l.data[1]) == "crypto::Signature::key_id" and not l.path and
                                         root_ids(b, l.data[1]["args"][0]) == sig_roots for l in lkl)
            kl = b.trace(vt["args"][0], (), lambda tt: callee_name(tt) in ("std::collections::HashMap::get", "std::collections::BTreeMap::get"))
            key_from_lookup = bool(kl) and all(lf.kind == "call" and lf.data[0] == gb and lf.path == (SOME, F0) for lf in kl)
            ok4 = same_sig and key_from_lookup
            detail += "; the lookup key is the key id of the signature being verified: %s; the verifying key is the value found by that lookup: %s" % (same_sig, key_from_lookup)
        ctx.inst(prefix + "/D4", "decrement guarded by authorised-key lookup and valid signature", ok4, detail, b.at(d.bb))
    check_verify_payload(ctx, prefix + "/D5")


# ---------------------------------------------------------------------------------------------
# enum <-> string tables of hand-written conversions
# ---------------------------------------------------------------------------------------------
def enum_to_string_table(fx, fn, enum_ty_suffix):
    """For a function matching on an enum value (param) and producing a string per variant:
    {variant: set of string constants used on that arm}."""
    from ..ss import const_str
    b = body_of(fx, fn["key"])
    out = {}
    for i in sorted(b.reach):
        blk = b.blocks[i]
        consts = []
        for st in blk["stmts"]:
            if st["k"] == "assign" and st["rv"]["k"] == "use":
                c = op_const(st["rv"]["op"])
                if c and "str" in c:
                    consts.append(c["str"])
        t = blk["term"]
        if t and t["k"] == "call":
            for a in t["args"]:
                c = op_const(a)
                if c and "str" in c:
                    consts.append(c["str"])
        if not consts:
            continue
        arm = None
        for (e, fa) in b.facts_dominating(i):
            if fa[0] == "variant" and (fa[3] or "").endswith(enum_ty_suffix):
                arm = fa[2]
        if arm is not None:
            out.setdefault(arm, set()).update(consts)
    return out


def string_to_enum_table(fx, fn, enum_adt):
    """For a function comparing a string with constants and constructing enum variants:
    {variant: set of string constants whose equality edge dominates its construction}."""
    b = body_of(fx, fn["key"])
    out = {}
    for i in sorted(b.reach):
        blk = b.blocks[i]
        for st in blk["stmts"]:
            if st["k"] == "assign" and st["rv"]["k"] == "agg" and st["rv"].get("adt") == enum_adt:
                v = st["rv"]["variant"]
                strs = set()
                for (e, fa) in b.facts_dominating(i):
                    c = as_cmp(fa)
                    if c and c[0] == "Eq":
                        for o in (c[1], c[2]):
                            cc = op_const(o)
                            if cc and "str" in cc:
                                strs.add(cc["str"])
                            else:
                                for lf in b.trace(o):
                                    if lf.kind == "const" and "str" in lf.data:
                                        strs.add(lf.data["str"])
                out.setdefault(v, set()).update(strs)
    return out


def check_structural_equality(ctx, rule, root_adt, fields):
    """The `==` the agreement / digest checks rely on compares everything: every local type inside the compared fields has a
    derived PartialEq, or a hand-written one that compares the whole field (a call to PartialEq on both sides' field) or at least
    the lengths before any element-wise walk (a `zip` over two digests of different length stops at the shorter one)."""
    import re
    from ..core import callee_name, norm, as_cmp, leaf_s
    from ..guards import body_of
    fx = ctx.fx
    adt = fx.adts.get(root_adt)
    if not adt:
        ctx.bad(rule, "structural equality", "%s not found" % root_adt)
        return
    todo, seen = [], set()
    for fl in adt["variants"][0]["fields"]:
        if fl["name"] in fields:
            todo.append(fl["ty"])
    while todo:
        ty = todo.pop()
        for nme in re.findall(r"[A-Za-z_][A-Za-z0-9_]*(?:::[A-Za-z_][A-Za-z0-9_]*)+", ty):
            if nme in fx.adts and nme not in seen:
                seen.add(nme)
                for v in fx.adts[nme]["variants"]:
                    for fl in v["fields"]:
                        todo.append(fl["ty"])
    n = 0
    for a in sorted(seen):
        impls = [im for im in fx.impls if norm(im.get("trait")) == "std::cmp::PartialEq" and im.get("self_adt") == a]
        if not impls:
            ctx.bad(rule, "%s equality" % a.split("::")[-1], "type inside the compared artifact maps has no PartialEq impl")
            continue
        for im in impls:
            for m in im["methods"]:
                f = fx.fns.get(m["key"])
                if not f or m["name"] != "eq":
                    continue
                n += 1
                if "d:PartialEq" in (f.get("exp") or ""):
                    ctx.ok(rule, "%s equality" % a.split("::")[-1], "derived PartialEq (all fields compared)", f["at"])
                    continue
                b = ctx.region(None, policy="private", key=f["key"], ps=True)
                def side(op):
                    lv = b.trace(op, (), None, {"__flow_all__": lambda t: (callee_name(t) or "").split("::")[-1] in ("len", "as_slice", "as_ref", "deref", "as_bytes", "as_str")})
                    ps = {l.data for l in lv if l.kind == "param"}
                    return next(iter(ps)) if len(ps) == 1 and all(l.kind in ("param", "const") for l in lv) else None
                whole = False
                for (i, t) in b.calls():
                    if norm(t.get("trait")) == "std::cmp::PartialEq" and len(t["args"]) == 2:
                        if {side(t["args"][0]), side(t["args"][1])} == {1, 2}:
                            whole = True
                lens = False
                for (e, tb, fa) in b.all_edge_facts():
                    c = as_cmp(fa)
                    if c and c[0] in ("Eq", "Ne"):
                        if {side(c[1]), side(c[2])} == {1, 2}:
                            lens = True
                for i in sorted(b.reach):
                    for st in b.blocks[i]["stmts"]:
                        if st["k"] == "assign" and st["rv"]["k"] == "binop" and st["rv"]["op"] in ("Eq", "Ne") and \
                                {side(st["rv"]["a"]), side(st["rv"]["b"])} == {1, 2}:
                            lens = True
                ctx.inst(rule, "%s equality" % a.split("::")[-1], whole or lens,
                         "hand-written PartialEq: compares the two values' field as a whole: %s; compares their lengths / the values with ==: %s" % (whole, lens), f["at"])
    if n == 0:
        ctx.bad(rule, "structural equality", "no PartialEq impl found for the types inside %s.%s" % (root_adt, sorted(fields)))
