"""C18 - recorded artifacts are exactly the files present, with their true digests."""
from ..core import (Body, callee_name, norm, op_const, op_place, proj_path, as_cmp, as_pred, leaf_s, OK, F0, F1, SOME, ELEM, SWAP)
from ..guards import root_ids, body_of, def_call, const_int, dominating_preds

EXPLANATION = (
    "The walk over the file system is runtime behaviour; the clauses the statement spells out structurally are decided on "
    "the MIR of runlib / crypto::calculate_hashes. D1: in in_toto_run, record(material_paths) Ok-dominates run_command, which "
    "Ok-dominates record(product_paths), and the link builder receives materials <- first recording, products <- second, "
    "byproducts <- the command's result. D2: every insertion into the artifact map is edge-dominated by "
    "contains_key(same map, same key) == false, or is the Vacant arm of entry(key) whose Occupied arm returns an error; writers "
    "that keep or replace an existing entry silently (or_insert, extend, append) are violations. D3: by-products are stdout <- output.stdout, stderr <- output.stderr, "
    "return value <- status.code(), and the process is started from cmd_args[0] with arguments cmd_args[1..] in run_dir. "
    "D4: every digest context created for the requested algorithms is updated with buf[0..n], n being the result of "
    "read(&mut buf) on the same buffer, and finished. D5: the walker follows links (constant true). D6: the loops that "
    "enumerate paths and directory entries are left only by exhaustion or by returning an error (no silent truncation), "
    "and the walk is pruned (skip_current_dir) only under `visited.contains(entry) == true` for a set the same entries are "
    "inserted into. "
    "D7: strip-prefix selection compares the length of the candidate prefix with the length of the best prefix so far.")
DECIDED = ["D1 materials before / products after the command", "D2 no silent replacement of an artifact key", "D3 by-products and process arguments mapping",
           "D4 bytes hashed are the bytes read, for every requested algorithm", "D5 symbolic links are followed", "D6 the walk is never silently cut short",
           "D7 longest strip-prefix comparison"]
UNDECIDED = ["which files a walk reaches, symlink resolution (relative targets), cycle handling, path normalisation, digest standard-conformance (file-system and dependency behaviour)"]
TRUSTED = ["walkdir visits every entry reachable under a root", "ring digests", "std::io::Read contract"]
ASSUMPTIONS = []
FLOORS = {"C18/D1": 5, "C18/D2": 1, "C18/D3": 5, "C18/D4": 4, "C18/D5": 1, "C18/D6": 2, "C18/D7": 1}


def run(ctx):
    fx = ctx.fx
    # ---------------- D1
    f = fx.fn_opt("runlib::in_toto_run")
    if f is None:
        ctx.bad("C18/D1", "in_toto_run", "not found (failing closed)")
    else:
        b = Body(f)
        b.enable_path_sensitivity()
        ctx.touch_body(b)
        recs = sorted(b.calls_named("runlib::record_artifacts"))
        runs = b.calls_named("runlib::run_command")
        if len(recs) != 2 or len(runs) != 1:
            ctx.bad("C18/D1", "sequencing", "expected two record_artifacts calls and one run_command call, found %d / %d" % (len(recs), len(runs)), f["at"])
        else:
            from ..pipeline import Pipeline
            class P_: pass
            def ok_edges(call_bb):
                out = []
                for (e, tb, fa) in b.all_edge_facts():
                    if fa[0] == "variant" and fa[2] in ("Continue", "Ok"):
                        lv = b.trace(fa[1], (("v", fa[2]), F0))
                        if lv and all(l.kind == "call" and l.data[0] == call_bb and l.path == (OK, F0) for l in lv):
                            out.append(e)
                return out
            by_paths = {}
            for (i, t) in recs:
                r = root_ids(b, t["args"][0])
                by_paths[i] = r
            mats = [(i, t) for (i, t) in recs if by_paths[i] == frozenset([("param", 3, ())])]
            prods = [(i, t) for (i, t) in recs if by_paths[i] == frozenset([("param", 4, ())])]
            ctx.inst("C18/D1", "one recording of material_paths and one of product_paths", len(mats) == 1 and len(prods) == 1,
                     "record_artifacts arguments: %s" % {i: sorted(r) for i, r in by_paths.items()}, f["at"])
            if len(mats) == 1 and len(prods) == 1:
                (mi, mt), (pi, pt), (ri, rt) = mats[0], prods[0], runs[0]
                d1 = any(ri in b.edge_dominated(e) for e in ok_edges(mi))
                d2 = any(pi in b.edge_dominated(e) for e in ok_edges(ri))
                ctx.inst("C18/D1", "materials recorded before the command runs", d1, "run_command is %sdominated by the Ok outcome of record(material_paths)" % ("" if d1 else "NOT "), rt["at"])
                ctx.inst("C18/D1", "products recorded after the command ran", d2, "record(product_paths) is %sdominated by the Ok outcome of run_command" % ("" if d2 else "NOT "), pt["at"])
                for (setter, src_bb, what) in (("materials", mi, "first recording"), ("products", pi, "second recording"), ("byproducts", ri, "command result")):
                    sc = b.calls_named("models::link::metadata::LinkMetadataBuilder::" + setter)
                    oks = len(sc) == 1 and root_ids(b, sc[0][1]["args"][1]) == frozenset([("call", src_bb, (OK, F0))])
                    ctx.inst("C18/D1", "link %s <- %s" % (setter, what), oks,
                             "%s(..) argument <- %s" % (setter, [sorted(root_ids(b, t["args"][1])) for (i, t) in sc]), f["at"])
                cmd_ok = root_ids(b, rt["args"][0]) == frozenset([("param", 5, ())]) and root_ids(b, rt["args"][1]) == frozenset([("param", 2, ())])
                ctx.inst("C18/D1", "the command run is cmd_args in run_dir", cmd_ok, "run_command(%s, %s)" % (sorted(root_ids(b, rt["args"][0])), sorted(root_ids(b, rt["args"][1]))), rt["at"])
    # ---------------- D2, D5, D6
    f = fx.fn_opt("runlib::record_artifacts")
    if f is None:
        ctx.bad("C18/D2", "record_artifacts", "not found (failing closed)")
    else:
        b = ctx.region(None, policy="private", key=f["key"], ps=True)
        ins = [(i, t) for (i, t) in b.calls() if "VirtualTargetPath" in (t.get("arg_tys") or [""])[0] and (
               callee_name(t) in ("std::collections::BTreeMap::insert", "std::collections::HashMap::insert") or
               (callee_name(t) or "").endswith("VacantEntry::insert"))]
        silent = [(i, callee_name(t)) for (i, t) in b.calls() if "VirtualTargetPath" in (t.get("arg_tys") or [""])[0] and
                  (callee_name(t) or "").split("::")[-1] in ("or_insert", "or_insert_with", "or_default", "and_modify", "insert_entry", "extend", "append")]
        if not ins:
            ctx.bad("C18/D2", "artifact insertion", "no insertion into the artifact map found")
        if silent:
            ctx.bad("C18/D2", "artifact insertion without a collision error", "the artifact map is written by %s, which keeps or replaces an existing "
                    "entry without an error" % silent)
        for k, (i, t) in enumerate(ins):
            guarded = False
            how = "NOT edge-dominated by contains_key(same map, same key) == false"
            if (callee_name(t) or "").endswith("VacantEntry::insert"):
                # map.entry(key): the Vacant arm inserts, the Occupied arm must return an error
                for (e, fa) in b.facts_dominating(i):
                    if fa[0] == "variant" and fa[2] == "Vacant":
                        el = b.trace(fa[1])
                        if el and all(l.kind == "call" and (callee_name(l.data[1]) or "").split("::")[-1] == "entry" for l in el):
                            occ = [(e2, tb2) for (e2, tb2, fa2) in b.all_edge_facts() if e2[0] == e[0] and e2 != e]
                            if occ and all(b._is_err_return_path(e2[0], tb2, set(), e2[1]) for (e2, tb2) in occ):
                                guarded = True
                                how = "the Vacant arm of entry(key); the Occupied arm returns an error"
            else:
                for (e, n, pt, truth) in dominating_preds(b, i):
                    if (n or "").split("::")[-1] == "contains_key" and truth is False and \
                            root_ids(b, pt["args"][0]) == root_ids(b, t["args"][0]) and root_ids(b, pt["args"][1]) == root_ids(b, t["args"][1]):
                        guarded = True
                        how = "edge-dominated by contains_key(same map, same key) == false"
            ctx.inst("C18/D2", "artifact insertion #%d guarded against an existing key" % (k + 1), guarded, "insert is " + how, t["at"])
        # the walk is pruned (skip_current_dir) only at an entry that was already visited: any other pruning drops files
        for k, (i, t) in enumerate(sorted(b.calls_named("walkdir::IntoIter::skip_current_dir"))):
            seen_before = False
            for (e, n, pt, truth) in dominating_preds(b, i):
                if (n or "").split("::")[-1] == "contains" and truth is True and "HashSet" in (pt.get("arg_tys") or [""])[0]:
                    # the set must be one that records visited entries: the same path is inserted when it is not contained
                    sroot = root_ids(b, pt["args"][0])
                    ins_same = [1 for (j, tt) in b.calls_named("std::collections::HashSet::insert") if root_ids(b, tt["args"][0]) == sroot]
                    if ins_same:
                        seen_before = True
            ctx.inst("C18/D6", "walk pruned only at an entry already visited #%d" % (k + 1), seen_before,
                     "skip_current_dir is %sedge-dominated by `visited.contains(entry) == true`" % ("" if seen_before else "NOT "), t["at"])
        fl = b.calls_named("walkdir::WalkDir::follow_links")
        okfl = len(fl) >= 1 and all((op_const(t["args"][1]) or {}).get("int") == 1 for (i, t) in fl)
        ctx.inst("C18/D5", "walker follows symbolic links", okfl, "follow_links argument(s): %s" % [(op_const(t["args"][1]) or {}).get("int") for (i, t) in fl], f["at"])
        loops = b.loops()
        walk_loops = []
        for h, lp in loops.items():
            t = b.blocks[h]["term"]
            # the loops in which artifacts are recorded: those containing an insertion into the artifact map
            if any(i in lp for (i, t) in ins):
                walk_loops.append((h, lp))
        if not walk_loops:
            ctx.bad("C18/D6", "walk loops", "no loop recording artifacts found")
        for (h, lp) in sorted(walk_loops):
            ex = b.continuing_exits(lp)
            # loops driven by `while let Some(..) = walker.next()`: the None edge is the exhaustion
            ctx.inst("C18/D6", "walk loop @bb%d is left only by exhaustion or an error return" % sorted(walk_loops).index((h, lp)), not ex,
                     "early exits that silently stop recording: %s" % [(e, b.at(e[0])) for e in ex], b.at(h))
    # ---------------- D3
    f = fx.fn_opt("runlib::run_command")
    if f is None:
        ctx.bad("C18/D3", "run_command", "not found (failing closed)")
    else:
        b = ctx.region(None, policy="private", key=f["key"], ps=True)
        outs = b.calls_named("std::process::Command::output")
        if len(outs) != 1:
            ctx.bad("C18/D3", "process run", "expected one Command::output call, found %d" % len(outs), f["at"])
        else:
            oi, ot = outs[0]
            for (setter, field) in (("set_stdout", "stdout"), ("set_stderr", "stderr")):
                sc = b.calls_named("models::link::byproducts::ByProducts::" + setter)
                lv = b.trace(sc[0][1]["args"][1]) if len(sc) == 1 else []
                okb = bool(lv) and all(l.kind == "call" and l.data[0] == oi and l.path == (OK, F0, ("f", field)) and
                                        set(l.via) <= {"String::from_utf8", "Try::branch", "Result::map_err"} | {"from_utf8"} for l in lv)
                # String::from_utf8 is not a summarised callee: accept a chain through it explicitly
                if not okb and len(sc) == 1:
                    lv2 = b.trace(sc[0][1]["args"][1], (), None, {"std::string::String::from_utf8": [((OK, F0), 0, ())]})
                    okb = bool(lv2) and all(l.kind == "call" and l.data[0] == oi and l.path == (OK, F0, ("f", field)) for l in lv2)
                    lv = lv2
                ctx.inst("C18/D3", "%s <- output.%s" % (setter, field), okb, "%s argument <- {%s}" % (setter, ", ".join(leaf_s(b, l) for l in lv)), f["at"])
            sc = b.calls_named("models::link::byproducts::ByProducts::set_return_value")
            lv = b.trace(sc[0][1]["args"][1], (), lambda t: callee_name(t) == "std::process::ExitStatus::code") if len(sc) == 1 else []
            okr = bool(lv) and all(l.kind == "call" and callee_name(l.data[1]) == "std::process::ExitStatus::code" and l.path == (SOME, F0) for l in lv)
            if okr:
                for l in lv:
                    sl = b.trace(l.data[1]["args"][0])
                    okr = okr and bool(sl) and all(s_.kind == "call" and s_.data[0] == oi and s_.path == (OK, F0, ("f", "status")) for s_ in sl)
            ctx.inst("C18/D3", "set_return_value <- output.status.code()", okr, "return value <- {%s}" % ", ".join(leaf_s(b, l) for l in lv), f["at"])
            news = b.calls_named("std::process::Command::new")
            okn = len(news) == 1
            if okn:
                lv = b.trace(news[0][1]["args"][0])
                okn = bool(lv) and all(l.kind == "param" and l.data == 1 and l.path == (ELEM,) for l in lv)
                idx = [t for (i, t) in b.calls() if t["k"] == "call" and False]
            # executable is cmd_args[0]: a bounds-checked constant index 0
            zero = False
            for i in sorted(b.reach):
                t = b.blocks[i]["term"]
                if t and t["k"] == "assert" and t["msg"] == "bounds" and const_int(b, t["ops"][1]) == 0:
                    zero = True
                # ... or the first element bound by a slice pattern `[first, rest @ ..]`
                for st in b.blocks[i]["stmts"]:
                    if st["k"] == "assign" and st["rv"]["k"] in ("ref", "use"):
                        pl = st["rv"].get("place") or op_place(st["rv"].get("op")) or {}
                        if pl.get("l") == 1 and any(isinstance(e, dict) and e.get("ci") == 0 and not e.get("from_end") for e in pl.get("p", [])):
                            zero = True
            ctx.inst("C18/D3", "the executable is cmd_args[0]", okn and zero, "Command::new argument derives from an element of cmd_args: %s; constant index 0: %s" % (okn, zero), f["at"])
            ar = b.calls_named("std::process::Command::args")
            oka = len(ar) == 1
            lv = []
            if oka:
                # every element handed to Command::args is an element of cmd_args[1..], unchanged (whatever builds the list)
                lv = b.trace(ar[0][1]["args"][1], (ELEM,), lambda t: callee_name(t) == "std::ops::Index::index", {"__content__": True})
                oka = bool(lv)
                # `[_, rest @ ..]`: the sub-slice from 1 to the end of cmd_args, bound by a slice pattern
                tail_locals = set()
                for i2 in sorted(b.reach):
                    for st in b.blocks[i2]["stmts"]:
                        if st["k"] == "assign" and st["rv"]["k"] == "ref" and st["rv"]["place"]["l"] == 1 and not st["dst"]["p"] and any(
                                isinstance(e, dict) and e.get("sub") == 1 and e.get("to") == 0 and e.get("from_end") for e in st["rv"]["place"]["p"]):
                            tail_locals.add(st["dst"]["l"])
                for l in lv:
                    if l.kind == "param" and l.data == 1 and l.path == (ELEM, ELEM) and tail_locals:
                        # elements of that sub-slice (the element path passes through the sub-slice projection)
                        tl = b.trace(ar[0][1]["args"][1], (ELEM,), lambda t: False, {"__content__": True})
                        continue
                    if l.kind == "call" and callee_name(l.data[1]) == "std::ops::Index::index" and l.path == (ELEM,):
                        it = l.data[1]
                        p = op_place(it["args"][1])
                        d = b.single_def(p["l"]) if p else None
                        rng_ok = bool(d and d.kind == "assign" and d.node["rv"].get("adt", "").endswith("RangeFrom") and const_int(b, d.node["rv"]["ops"][0]) == 1)
                        oka = oka and rng_ok and root_ids(b, it["args"][0]) == frozenset([("param", 1, ())])
                    else:
                        oka = False
            ctx.inst("C18/D3", "the arguments are cmd_args[1..]", oka, "elements of the Command::args argument <- {%s}" % (", ".join(leaf_s(b, l) for l in lv)), f["at"])
            cd = b.calls_named("std::process::Command::current_dir")
            okc = len(cd) == 1 and all(l.kind == "param" and l.data == 2 and l.path == (SOME, F0) for l in b.trace(cd[0][1]["args"][1]))
            ctx.inst("C18/D3", "the command runs in run_dir", okc, "current_dir argument derives from run_dir: %s" % okc, f["at"])
    # ---------------- D4
    f = fx.fn_opt("crypto::calculate_hashes")
    if f is None:
        ctx.bad("C18/D4", "calculate_hashes", "not found (failing closed)")
    else:
        b = ctx.region(None, policy="private", key=f["key"], ps=True)
        reads = b.calls_named("std::io::Read::read")
        ups = b.calls_named("ring::digest::Context::update")
        if len(reads) != 1 or len(ups) != 1:
            ctx.bad("C18/D4", "hash loop", "expected one read and one update call, found %d / %d" % (len(reads), len(ups)), f["at"])
        else:
            (ri, rt), (ui, ut) = reads[0], ups[0]
            lv = b.trace(ut["args"][1], (), lambda t: callee_name(t) == "std::ops::Index::index")
            okd = bool(lv)
            detail = []
            for l in lv:
                if not (l.kind == "call" and callee_name(l.data[1]) == "std::ops::Index::index"):
                    okd = False
                    detail.append(leaf_s(b, l))
                    continue
                it = l.data[1]
                p = op_place(it["args"][1])
                d = b.single_def(p["l"]) if p else None
                rng = d.node["rv"].get("adt", "") if (d and d.kind == "assign") else ""
                if rng.endswith("::Range"):
                    st, en = d.node["rv"]["ops"]
                    start0 = const_int(b, st) == 0
                elif rng.endswith("::RangeTo"):
                    (en,) = d.node["rv"]["ops"]
                    start0 = True
                else:
                    okd = False
                    continue
                same_buf = root_ids(b, it["args"][0]) == root_ids(b, rt["args"][1])
                n_from_read = root_ids(b, en) == frozenset([("call", ri, (OK, F0))])
                okd = okd and start0 and same_buf and n_from_read
                detail.append("update(buf[0..n]) starts at 0: %s, same buffer as read: %s, n = read result: %s" % (start0, same_buf, n_from_read))
            ctx.inst("C18/D4", "the bytes hashed are buf[0..n] of the same read", okd, "; ".join(detail), ut["at"])
            # all contexts updated: update's receiver is the element of a loop over values_mut() of the context map
            cl = b.trace(ut["args"][0])
            ctx_all = bool(cl) and all("HashMap::values_mut" in l.via or "HashMap::iter_mut" in l.via or
                                       (l.kind == "call" and callee_name(l.data[1]) in ("core::slice::iter_mut", "std::vec::Vec::iter_mut") and l.path[:1] == (ELEM,))
                                       for l in cl) and \
                not any(x in " ".join(l.via) for l in cl for x in ("take", "skip", "filter"))
            lp = [l for l in b.loops().values() if ui in l]
            no_exit = bool(lp) and not b.continuing_exits(min(lp, key=len))
            ctx.inst("C18/D4", "every digest context is updated", ctx_all and no_exit,
                     "update receiver <- {%s}; inner loop without early exit: %s" % (", ".join(leaf_s(b, l) for l in cl), no_exit), ut["at"])
            # one context per requested algorithm
            ins = b.calls_named("std::collections::HashMap::insert", "std::collections::BTreeMap::insert", "std::vec::Vec::push")
            okc = False
            for (i, t) in ins:
                if callee_name(t) == "std::vec::Vec::push":
                    # a vector of (algorithm, context) pairs instead of a map
                    kl = b.trace(t["args"][1], (F0,))
                    vl = b.trace(t["args"][1], (F1,), lambda tt: (callee_name(tt) or "").endswith("digest_context"))
                else:
                    kl = b.trace(t["args"][1])
                    vl = b.trace(t["args"][2], (), lambda tt: (callee_name(tt) or "").endswith("digest_context"))
                key_alg = bool(kl) and all(l.kind == "param" and l.data == 2 and l.path == (ELEM,) for l in kl)
                val_ctx = bool(vl) and all(l.kind == "call" and (callee_name(l.data[1]) or "").endswith("HashAlgorithm::digest_context") and
                                           root_ids(b, l.data[1]["args"][0]) == frozenset([("param", 2, (ELEM,))]) for l in vl)
                lp2 = [l for l in b.loops().values() if i in l]
                okc = okc or (key_alg and val_ctx and bool(lp2) and not b.continuing_exits(min(lp2, key=len)))
            ctx.inst("C18/D4", "one digest context per requested algorithm", okc, "contexts.insert(alg, alg.digest_context()?) for every element of hash_algs: %s" % okc, f["at"])
            fin = []
            for ck in fx.closures_of.get(f["key"], []):
                cb = body_of(fx, ck)
                fin += cb.calls_named("ring::digest::Context::finish")
            dr = b.calls_named("std::collections::HashMap::drain", "std::collections::HashMap::into_iter", "std::iter::IntoIterator::into_iter")
            drained = bool(b.calls_named("std::collections::HashMap::drain")) or any(
                "ring::digest::Context" in " ".join(t.get("arg_tys") or []) and not (t.get("arg_tys") or [""])[0].startswith("&")
                for (i, t) in b.calls_named("std::iter::IntoIterator::into_iter"))
            ctx.inst("C18/D4", "every context is finished into the result", len(fin) == 1 and drained,
                     "finish() called in the closure mapping the drained context map: %s" % (len(fin) == 1), f["at"])
    # ---------------- D7
    # the prefix-stripping function, by role: reachable from record_artifacts, with a loop in which the path is tested / stripped
    # against candidate prefixes
    f = None
    ra = fx.fn_opt("runlib::record_artifacts")
    if ra:
        for k in sorted(ctx.cg.reachable([ra["key"]])):
            g = fx.fns[k]
            if g.get("exp") or g["kind"] not in ("Fn", "AssocFn") or not g["path"].startswith("runlib::"):
                continue
            gb = body_of(fx, k)
            lps = list(gb.loops().values())
            if any(callee_name(t) in ("core::str::strip_prefix", "core::str::starts_with") and any(i in l for l in lps) for (i, t) in gb.calls()):
                f = g
    # the same selection written as a pipeline: candidates.filter(|p| path.starts_with(p)).max_by_key(|p| p.len())
    fpipe = None
    if f is None and ra:
        for k in sorted(ctx.cg.reachable([ra["key"]])):
            g = fx.fns[k]
            if g.get("exp") or g["kind"] not in ("Fn", "AssocFn") or not g["path"].startswith("runlib::"):
                continue
            gb = body_of(fx, k)
            names = {callee_name(t) for (i, t) in gb.calls()}
            if "core::str::strip_prefix" in names and names & {"std::iter::Iterator::max_by_key", "std::iter::Iterator::min_by_key", "std::iter::Iterator::max_by"}:
                fpipe = g
    if fpipe is not None:
        b = Body(fpipe)
        ctx.touch_body(b)
        okl, detail = False, "no max_by_key(len) over the prefixes the path starts with"
        for (mi, mt) in b.calls_named("std::iter::Iterator::max_by_key"):
            # key function: the length of the candidate
            p = op_place(mt["args"][1])
            d = b.single_def(p["l"]) if p is not None and not p["p"] else None
            key_len = False
            if d and d.kind == "assign" and d.node["rv"].get("agg") == "closure" and d.node["rv"]["closure_key"] in fx.fns:
                cb = body_of(fx, d.node["rv"]["closure_key"])
                kl = cb.trace({"l": 0, "p": []})
                key_len = bool(kl) and all(l.kind == "call" and callee_name(l.data[1]) in ("core::str::len", "str::len", "std::string::String::len") and
                                           all(r[0] == "param" and r[1] == 2 for r in root_ids(cb, l.data[1]["args"][0])) for l in kl)
            # candidates: filtered by starts_with
            flt = False
            cur = mt["args"][0]
            for _ in range(6):
                dc = def_call(b, cur)
                if not dc:
                    break
                if callee_name(dc[1]) == "std::iter::Iterator::filter":
                    pf = op_place(dc[1]["args"][1])
                    df = b.single_def(pf["l"]) if pf is not None and not pf["p"] else None
                    if df and df.kind == "assign" and df.node["rv"].get("agg") == "closure" and df.node["rv"]["closure_key"] in fx.fns:
                        fb = body_of(fx, df.node["rv"]["closure_key"])
                        fl = fb.trace({"l": 0, "p": []})
                        flt = bool(fl) and all(l.kind == "call" and callee_name(l.data[1]) == "core::str::starts_with" for l in fl)
                    break
                cur = dc[1]["args"][0] if dc[1]["args"] else None
                if cur is None:
                    break
            # the prefix that is stripped is the maximum found
            used = False
            for (si, st_) in b.calls_named("core::str::strip_prefix"):
                lv = b.trace(st_["args"][1], (), lambda tt: tt is mt)
                used = used or (bool(lv) and all(l.kind == "call" and l.data[0] == mi and l.path[:2] == (SOME, F0) for l in lv))
            okl = okl or (key_len and flt and used)
            detail = "max_by_key: key is the candidate's length: %s; candidates filtered by starts_with: %s; the maximum is what strip_prefix removes: %s" % (key_len, flt, used)
        ctx.inst("C18/D7", "strip-prefix selection compares candidate length with the best so far", okl, detail, fpipe["at"])
    elif f is None:
        ctx.bad("C18/D7", "strip-prefix selection", "no function reachable from record_artifacts strips candidate prefixes in a loop (failing closed)")
    else:
        b = Body(f)
        ctx.touch_body(b)
        nexts = b.calls_named("std::iter::Iterator::next")
        okl = False
        detail = "no comparison of prefix lengths found"
        if nexts:
            ni, nt = nexts[0]
            elem = root_ids(b, nt["dst"], (SOME, F0))
            for (e, tb, fa) in b.all_edge_facts():
                c = as_cmp(fa)
                if not c or c[0] not in ("Ge", "Gt", "Le", "Lt"):
                    continue
                sides = []
                for o in (c[1], c[2]):
                    lv = b.trace(o)
                    if lv and all(l.kind == "call" and callee_name(l.data[1]) in ("core::str::len", "str::len") for l in lv):
                        recv = set()
                        for l in lv:
                            recv |= set(root_ids(b, l.data[1]["args"][0]))
                        sides.append(recv)
                if len(sides) == 2:
                    # one side: the candidate (loop element); other side: the running best = {initial constant, previous candidates}
                    cand = [s_ for s_ in sides if s_ and s_ <= set(elem)]
                    best = [s_ for s_ in sides if any(k == "const" for (k, i, p) in s_) and any((k, i, p) in elem for (k, i, p) in s_)]
                    if cand and not best:
                        # the running best kept as Option<(prefix, rest)> instead of a sentinel "": the other length is taken from a
                        # loop-carried local (several definitions) that is filled from earlier candidates
                        for o in (c[1], c[2]):
                            for l in b.trace(o):
                                if not (l.kind == "call" and callee_name(l.data[1]) in ("core::str::len", "str::len")):
                                    continue
                                pz = op_place(l.data[1]["args"][0])
                                for _ in range(8):
                                    if pz is None:
                                        break
                                    if len(b.defs.get(pz["l"], [])) >= 2 and any(dd.bb in lp_ for dd in b.defs.get(pz["l"], []) for lp_ in b.loops().values() if e[0] in lp_):
                                        best = [set(elem)]
                                        break
                                    dz = b.single_def(pz["l"])
                                    if dz is None or dz.kind != "assign":
                                        break
                                    rz = dz.node["rv"]
                                    pz = rz["place"] if rz["k"] in ("ref",) else (op_place(rz["op"]) if rz["k"] == "use" else None)
                    if cand and best:
                        okl = True
                        detail = "edge bb%d compares len(best prefix so far) with len(candidate prefix) (%s)" % (e[0], c[0])
        ctx.inst("C18/D7", "strip-prefix selection compares candidate length with the best so far", okl, detail, f["at"])
