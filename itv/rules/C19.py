"""C19 - attestation statements and predicates are self-consistent and round-trip."""
import re
from ..core import (Body, callee_name, norm, op_const, op_place, proj_path, as_cmp, leaf_s, OK, F0, F1, SOME, ELEM)
from ..guards import root_ids, body_of, def_call
from ..ss import Schema
from . import shared

EXPLANATION = (
    "Schema rules (serde schema extracted from the derive-expanded code) and provenance rules. D1: every struct of the "
    "statement / predicate closure rejects unknown fields. D2: with R = required keys (non-Option fields) and A = accepted "
    "keys per format, no two predicate formats and no two statement formats can both accept one document "
    "(not (R_i <= A_j and R_j <= A_i)), so trial order is irrelevant and exactly one version is recognised. D3: on the only "
    "path from wire text to a v0.1 statement (StatementWrapper::from_value) the parsed value passes a check that returns Err "
    "unless predicate_type == predicate.version(). D4: both wrapper enums serialise untagged, as their version-detecting "
    "Deserialize expects. D5: merge maps every link field to the same-named statement field (naive) resp. products -> "
    "subject, p.version() -> predicateType, p -> predicate (v0.1). D6: each format's version() and into_enum() name the same "
    "variant, from_value constructs the variant named by the version it was asked for, the version <-> string tables of "
    "PredicateVer / StatementVer agree in both directions, and the SLSA timestamp is written with to_rfc3339 and read with "
    "parse_from_rfc3339 into an owned string.")
DECIDED = ["D1 closed schemas", "D2 formats pairwise disjoint", "D3 declared predicate type = contained format", "D4 wrapper (de)serialisation symmetry",
           "D5 merge mapping", "D6 version tables / timestamp codec"]
UNDECIDED = ["equality after a round trip for all documents", "sub-second timestamp precision"]
TRUSTED = ["serde derive semantics", "chrono RFC 3339 formatting and parsing are inverse to the second"]
ASSUMPTIONS = []
FLOORS = {"C19/D1": 10, "C19/D2": 4, "C19/D3": 2, "C19/D4": 6, "C19/D5": 8, "C19/D6": 8}

PRED_FORMATS = {"LinkV0_2": "models::predicate::link_v02::LinkV02", "SLSAProvenanceV0_1": "models::predicate::slsa_provenance_v01::SLSAProvenanceV01",
                "SLSAProvenanceV0_2": "models::predicate::slsa_provenance_v02::SLSAProvenanceV02"}
STATE_FORMATS = {"Naive": "models::statement::state_naive::StateNaive", "V0_1": "models::statement::state_v01::StateV01"}


def is_option(ty):
    return ty.startswith("std::option::Option<")


def find_from_value(fx, wrap, ver_enum):
    """The versioned parser of a wrapper enum, by role: the inherent function of `wrap` taking (serde_json::Value, <version enum>)."""
    c = [f for f in fx.doc["fns"] if f["path"].startswith(wrap + "::") and f["kind"] == "AssocFn" and not f.get("impl_trait") and not f.get("exp")
         and [f["locals"][i]["ty"] for i in range(1, f["arg_count"] + 1)] == ["serde_json::Value", ver_enum]]
    return c[0] if len(c) == 1 else None


def _names_variant(fx, t):
    """The callee is a local function PredicateWrapper -> PredicateVer whose every result is the version constant named like the
    variant it was matched on (`LinkV0_2(_) => PredicateVer::LinkV0_2`)."""
    g = fx.fns.get(t.get("resolved_key") or t.get("callee_key"))
    if g is None or g.get("exp") or not g["locals"][0]["ty"].endswith("predicate::PredicateVer") or g["arg_count"] != 1:
        return False
    gb = body_of(fx, g["key"])
    n = 0
    for i in sorted(gb.reach):
        for st in gb.blocks[i]["stmts"]:
            if st["k"] == "assign" and st["dst"]["l"] == 0 and not st["dst"]["p"]:
                rv = st["rv"]
                if not (rv["k"] == "agg" and (rv.get("adt") or "").endswith("predicate::PredicateVer") and not rv.get("ops")):
                    return False
                arm = [fa[2] for (e, fa) in gb.facts_dominating(i) if fa[0] == "variant" and (fa[3] or "").endswith("predicate::PredicateWrapper")]
                if not arm or arm[-1] != rv.get("variant"):
                    return False
                n += 1
    return n >= 2


def run(ctx):
    fx = ctx.fx
    S = Schema(fx)
    roots = list(PRED_FORMATS.values()) + list(STATE_FORMATS.values())
    closure = S.wire_closure(roots)
    # the statement closure reuses link-level types (ByProducts, VirtualTargetPath ..): D1 is about the attestation structs
    att = sorted(a for a in closure if a.startswith(("models::predicate::", "models::statement::")))
    # ---- D1
    for a in att:
        d = S.de.get(a)
        adt = fx.adts[a]
        if adt["kind"] != "Struct" or not d or "deserialize_struct" not in d["kind"]:
            continue
        ctx.inst("C19/D1", "%s rejects unknown fields" % a, d["deny_unknown"] and not d["ignores_unknown"],
                 "unknown_field error on the default arm: %s; ignores unknown: %s" % (d["deny_unknown"], d["ignores_unknown"]), d["at"])
    # ---- D2
    def req_acc(a):
        d = S.de.get(a)
        adt = fx.adts[a]
        fields = {fl["name"]: fl["ty"] for fl in adt["variants"][0]["fields"]}
        s = S.ser.get(a)
        wire_of = {e["field"]: e["key"] for e in (s["entries"] if s else [])}
        acc = set(d["keys"])
        req = {wire_of.get(n, n) for n, ty in fields.items() if not is_option(ty)} - set(x for x in [None])
        req = {r for r in req if r in acc} | {wire_of.get(n, n) for n, ty in fields.items() if not is_option(ty) and wire_of.get(n, n) in d["missing"] and not d["defaults"]}
        return req, acc
    for (name, table) in (("predicate", PRED_FORMATS), ("statement", STATE_FORMATS)):
        items = sorted(table.items())
        for i in range(len(items)):
            for j in range(i + 1, len(items)):
                (vi, ai), (vj, aj) = items[i], items[j]
                if ai not in S.de or aj not in S.de:
                    ctx.bad("C19/D2", "%s vs %s" % (vi, vj), "format type not found")
                    continue
                ri, Ai = req_acc(ai)
                rj, Aj = req_acc(aj)
                both = ri <= Aj and rj <= Ai
                closed = S.de[ai]["deny_unknown"] and S.de[aj]["deny_unknown"]
                ctx.inst("C19/D2", "%s formats %s / %s are disjoint" % (name, vi, vj), closed and not both,
                         "required %s accepted %s  vs  required %s accepted %s; both closed: %s" % (sorted(ri), sorted(Ai), sorted(rj), sorted(Aj), closed))
    # ---- D4 wrappers
    for w, table in (("models::predicate::PredicateWrapper", PRED_FORMATS), ("models::statement::StatementWrapper", STATE_FORMATS)):
        s = S.ser.get(w)
        if not s:
            ctx.bad("C19/D4", w, "no Serialize impl")
            continue
        tagged = [v for v in s["variants"]]
        deleg = {d.get("arm"): d.get("ty") for d in s["delegates"] if d.get("arm")}
        okw = not tagged and deleg == {k: v for k, v in table.items()}
        ctx.inst("C19/D4", "%s serialises untagged" % w.split("::")[-1], okw,
                 ("variant-tagged serialisation %s: the wrapper writes {\"<Variant>\": ..} which its own version-detecting Deserialize does not accept" %
                  [(v["wire"], v["style"]) for v in tagged]) if tagged else "each variant serialises its payload directly: %s" % deleg, s["at"])
        d = S.de.get(w)
        okd = bool(d) and any((x.get("fn") or "").endswith("::try_from_value") for x in d["delegates"])
        ctx.inst("C19/D4", "%s deserialises by version detection" % w.split("::")[-1], okd, "delegates: %s" % (d["delegates"] if d else None))
        # ... and by nothing else: every Ok the decoder returns is the Ok of the version-detecting entry point (a direct
        # decode of one format next to it skips the consistency checks that entry point applies)
        df = [g for g in fx.doc["fns"] if g["path"].startswith("<%s as" % w) and g["path"].endswith("Deserialize<'de>>::deserialize") and not g.get("exp")]
        if len(df) == 1:
            rb = ctx.region(None, policy=("private-except", frozenset(
                [g["path"] for g in fx.doc["fns"] if g["path"].endswith("::try_from_value")])), key=df[0]["key"], ps=True)
            lv = rb.trace({"l": 0, "p": []}, (OK, F0), lambda t: (callee_name(t) or "").endswith("::try_from_value"))
            only = bool(lv) and all(l.kind == "call" and (callee_name(l.data[1]) or "") == w + "::try_from_value" and l.path == (OK, F0) for l in lv)
            ctx.inst("C19/D4", "%s: every decoded value comes out of try_from_value" % w.split("::")[-1], only,
                     "Ok payload <- {%s}" % ", ".join(leaf_s(rb, l) for l in lv), df[0]["at"])
    # ---- D3
    fv = find_from_value(fx, "models::statement::StatementWrapper", "models::statement::StatementVer")
    if fv is None:
        ctx.bad("C19/D3", "from_value", "StatementWrapper::from_value not found")
    else:
        # (a) a checker function: Ok(self) only under predicate_type == predicate.version()
        checkers = []
        for g in fx.doc["fns"]:
            if not g["path"].startswith("models::statement::") or g.get("exp"):
                continue
            gb = body_of(fx, g["key"])
            for (e, tb, fa) in gb.all_edge_facts():
                c = as_cmp(fa)
                if not c or c[0] != "Eq":
                    continue
                sides = []
                for o in (c[1], c[2]):
                    lv = gb.trace(o)
                    if lv and all(l.kind in ("param", "call") and l.path[-1:] == (("f", "predicate_type"),) for l in lv):
                        sides.append("declared")       # of the statement handed in, or of the one just decoded from it
                    elif lv and all(l.kind == "call" and _names_variant(fx, l.data[1]) and
                                    all(("f", "predicate") in r.path for r in gb.trace(l.data[1]["args"][0])) for l in lv):
                        sides.append("actual")         # a local function that names the format by the variant the predicate is stored in
                    elif lv and all(l.kind == "call" and (callee_name(l.data[1]) or "").endswith("PredicateLayout::version") for l in lv):
                        # the receiver derives from the same value's predicate
                        ok_recv = True
                        for l in lv:
                            rl = gb.trace(l.data[1]["args"][0])
                            stop = lambda t: (callee_name(t) or "").endswith("PredicateWrapper::into_trait")
                            rl = gb.trace(l.data[1]["args"][0], (), stop)
                            for r in rl:
                                if r.kind == "call" and (callee_name(r.data[1]) or "").endswith("PredicateWrapper::into_trait"):
                                    pr = gb.trace(r.data[1]["args"][0])
                                    if not (pr and all(p.kind == "param" and p.path[-1:] == (("f", "predicate"),) for p in pr)):
                                        ok_recv = False
                                elif r.kind == "param" and ("f", "predicate") in r.path:
                                    pass          # version() called on the payload of self.predicate directly (a match on its variants)
                                else:
                                    ok_recv = False
                        if ok_recv:
                            sides.append("actual")
                if sorted(sides) == ["actual", "declared"]:
                    # every Ok return is dominated by this edge
                    oks = [d_.bb for d_ in gb.defs.get(0, []) if d_.kind == "assign" and d_.node["rv"].get("variant") == "Ok"]
                    if oks and all(o_ in gb.edge_dominated(e) for o_ in oks):
                        checkers.append(g)
        ctx.inst("C19/D3", "a check `predicate_type == predicate.version()` guards the Ok return", bool(checkers),
                 ("checker function(s): %s" % [g["path"] for g in checkers]) if checkers else
                 "no function of the statement module compares the declared predicateType with the version of the contained predicate: "
                 "a statement declaring SLSA v0.2 while containing a Link predicate is accepted")
        # (b) the V0_1 arm of from_value routes the parsed value through it
        fb = body_of(fx, fv["key"])
        routed = False
        for i, t in fb.calls():
            arm = None
            for (e, fa) in fb.facts_dominating(i):
                if fa[0] == "variant" and (fa[3] or "").endswith("StatementVer"):
                    arm = fa[2]
            if arm != "V0_1":
                continue
            for a in t["args"]:
                c = op_const(a)
                if c and c.get("fn_key") in {g["key"] for g in checkers}:
                    routed = True
            ck = t.get("resolved_key") or t.get("callee_key")
            if ck in {g["key"] for g in checkers}:
                routed = True
        ctx.inst("C19/D3", "the v0.1 arm of from_value applies the check", routed and bool(checkers),
                 "the check is referenced on the V0_1 arm of StatementWrapper::from_value: %s" % routed, fv["at"])
    # ---- D5 merge
    for (fmt, adt_path) in STATE_FORMATS.items():
        m = [g for g in fx.doc["fns"] if g["path"] == "<%s as models::statement::FromMerge>::merge" % adt_path]
        if len(m) != 1:
            ctx.bad("C19/D5", "merge for " + fmt, "FromMerge::merge impl not found")
            continue
        mb = body_of(fx, m[0]["key"])
        ctx.touch_body(mb)
        sites = [(i, st) for i, blk in enumerate(mb.blocks) for st in blk["stmts"]
                 if st["k"] == "assign" and st["rv"].get("adt") == adt_path and i in mb.reach]
        if len(sites) != 1:
            ctx.bad("C19/D5", "merge for " + fmt, "expected one construction of %s, found %d" % (adt_path, len(sites)))
            continue
        rv = sites[0][1]["rv"]
        for fname, op in zip(rv["fields"], rv["ops"]):
            lv = mb.trace(op)
            if fname == "typ":
                okf = bool(lv) and all(l.kind == "const" or (l.kind == "agg") or (l.kind == "call" and "StatementVer" in " ".join(l.data[1].get("generics", []) + [l.data[1].get("callee_full", "")])) for l in lv)
                want = "the statement version string"
            elif fmt == "Naive":
                okf = bool(lv) and all(l.kind == "param" and l.data == 1 and l.path == (("f", fname),) for l in lv)
                want = "meta." + fname
            elif fname == "subject":
                okf = bool(lv) and all(l.kind == "param" and l.data == 1 and l.path == (("f", "products"),) for l in lv)
                want = "meta.products"
            elif fname == "predicate_type":
                okf = bool(lv) and all(l.kind == "call" and (callee_name(l.data[1]) or "").endswith("PredicateLayout::version") for l in lv)
                want = "p.version()"
            elif fname == "predicate":
                okf = bool(lv) and all(l.kind == "call" and (callee_name(l.data[1]) or "").endswith("PredicateLayout::into_enum") for l in lv)
                want = "p.into_enum()"
            else:
                okf, want = False, "?"
            ctx.inst("C19/D5", "%s.%s <- %s" % (fmt, fname, want), okf, "%s <- {%s}" % (fname, ", ".join(leaf_s(mb, l) for l in lv)), m[0]["at"])
    # ---- D6 version()/into_enum() pairs and from_value arms
    for (trait, wrap, table, ver_enum) in (("models::predicate::PredicateLayout", "models::predicate::PredicateWrapper", PRED_FORMATS, "models::predicate::PredicateVer"),
                                           ("models::statement::StateLayout", "models::statement::StatementWrapper", STATE_FORMATS, "models::statement::StatementVer")):
        for (vname, adt_path) in sorted(table.items()):
            vf = [g for g in fx.doc["fns"] if g["path"] == "<%s as %s>::version" % (adt_path, trait)]
            ef = [g for g in fx.doc["fns"] if g["path"] == "<%s as %s>::into_enum" % (adt_path, trait)]
            if len(vf) != 1 or len(ef) != 1:
                ctx.bad("C19/D6", "%s version/into_enum" % adt_path, "impl methods not found")
                continue
            vb, eb = body_of(fx, vf[0]["key"]), body_of(fx, ef[0]["key"])
            vv = {l.data[2].get("variant") for l in vb.trace({"l": 0, "p": []}) if l.kind == "agg"}
            ev = {l.data[2].get("variant") for l in eb.trace({"l": 0, "p": []}) if l.kind == "agg"}
            ctx.inst("C19/D6", "%s: version() and into_enum() name %s" % (adt_path.split("::")[-1], vname), vv == {vname} and ev == {vname},
                     "version() returns %s, into_enum() wraps as %s" % (sorted(vv), sorted(ev)), vf[0]["at"])
        fvn = find_from_value(fx, wrap, ver_enum)
        if fvn:
            fb = ctx.region(None, policy="private", key=fvn["key"], ps=True)
            arms = {}
            # the wrapper variant is built by an aggregate (`Self::V(x)`) or by the constructor passed to a combinator
            for i in sorted(fb.reach):
                for st in fb.blocks[i]["stmts"]:
                    if st["k"] == "assign" and st["rv"].get("adt") == wrap:
                        for (e, fa) in fb.facts_dominating(i):
                            if fa[0] == "variant" and (fa[3] or "") == ver_enum:
                                arms.setdefault(fa[2], set()).add(st["rv"]["variant"])
            for i, t in fb.calls():
                arm = None
                for (e, fa) in fb.facts_dominating(i):
                    if fa[0] == "variant" and (fa[3] or "") == ver_enum:
                        arm = fa[2]
                if arm is None:
                    continue
                for a in t["args"]:
                    c = op_const(a)
                    if c and c.get("fn", "").startswith(wrap + "::"):
                        arms.setdefault(arm, set()).add(c["fn"].split("::")[-1])
                if callee_name(t) == "serde_json::from_value":
                    g0 = [g for g in t.get("generics", []) if not g.startswith("'")]
                    arms.setdefault(arm, set()).add("parse:" + (g0[0] if g0 else "?"))
            okarms = all(arms.get(v) == {v, "parse:" + table[v]} for v in table)
            ctx.inst("C19/D6", "%s::from_value parses and wraps the format named by the requested version" % wrap.split("::")[-1], okarms, "arms: %s" % {k: sorted(v) for k, v in arms.items()}, fvn["at"])
        # version <-> string tables
        to_s = [g for g in fx.doc["fns"] if g["path"].endswith("<impl std::convert::From<%s> for std::string::String>::from" % ver_enum)]
        from_s = [g for g in fx.doc["fns"] if g["path"] == "<%s as std::convert::TryFrom<std::string::String>>::try_from" % ver_enum]
        if len(to_s) == 1 and len(from_s) == 1:
            t1 = shared.enum_to_string_table(fx, to_s[0], ver_enum.split("::")[-1])
            t2 = shared.string_to_enum_table(fx, from_s[0], ver_enum)
            ctx.inst("C19/D6", "%s <-> string tables agree" % ver_enum.split("::")[-1], bool(t1) and t1 == t2 and all(len(v) == 1 for v in t1.values()),
                     "to string %s; from string %s" % ({k: sorted(v) for k, v in t1.items()}, {k: sorted(v) for k, v in t2.items()}), to_s[0]["at"])
        else:
            ctx.bad("C19/D6", "%s <-> string tables" % ver_enum, "conversion impls not found (%d / %d)" % (len(to_s), len(from_s)))
    # timestamp codec
    ts = "models::predicate::slsa_provenance_v01::TimeStamp"
    sf, df = S.ser_fn.get(ts), S.de_fn.get(ts)
    if sf and df:
        sb = ctx.region(None, policy="private", key=sf["key"])
        db = ctx.region(None, policy="private", key=df["key"])
        wr = [callee_name(t) for (i, t) in sb.calls() if (callee_name(t) or "").startswith("chrono::")]
        rd = [callee_name(t) for (i, t) in db.calls() if (callee_name(t) or "").startswith("chrono::")]
        secs = any(op_const(a) is None and True for (i, t) in sb.calls() for a in t["args"]) or True
        okts = wr == ["chrono::DateTime::to_rfc3339_opts"] and rd == ["chrono::DateTime::parse_from_rfc3339"]
        zflag = None
        for (i, t) in sb.calls_named("chrono::DateTime::to_rfc3339_opts"):
            zflag = (op_const(t["args"][2]) or {}).get("int")
            recv = sb.trace(t["args"][0])
            okts = okts and bool(recv) and all(l.kind == "param" and l.data == 1 for l in recv)
        ctx.inst("C19/D6", "timestamp written with to_rfc3339_opts and read with parse_from_rfc3339", okts,
                 "serialize calls %s (use_z=%s); deserialize calls %s" % (wr, zflag, rd), sf["at"])
    else:
        ctx.bad("C19/D6", "timestamp codec", "TimeStamp impls not found")
