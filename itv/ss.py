"""Serde schema extraction from the derive-expanded, type-checked code (MIR), not from attributes.

For each local ADT with a Serialize / Deserialize impl:
  ser: kind, name, entries [(key, source field path, guard)], flatten sources, variant table, delegations
  de : accepted keys, unknown-field policy, required (missing_field) names, defaults, value types,
       untagged variant order, variant names, delegations
"""
import re
from .core import Body, callee_name, norm, op_const, op_place, as_pred, leaf_s, F0, F1, proj_path
from .guards import body_of


def _clean(s):
    return re.sub(r"[A-Za-z0-9_:#]*::_serde::", "serde::", s or "")


def const_str(b, op):
    c = op_const(op)
    if c is not None and "str" in c:
        return c["str"]
    vals = set()
    for lf in b.trace(op):
        if lf.kind == "const" and "str" in lf.data:
            vals.add(lf.data["str"])
        else:
            return None
    return vals.pop() if len(vals) == 1 else None


def self_field(b, op):
    """If operand derives exactly from a field path of `self` (param 1): the path as 'a.b'."""
    lv = b.trace(op)
    if not lv:
        return None
    paths = set()
    for lf in lv:
        if lf.kind == "param" and lf.data == 1:
            paths.add(".".join(e[1] if e[0] in ("f", "v") else "[]" for e in lf.path))
        else:
            return None
    return paths.pop() if len(paths) == 1 else None


class Schema:
    def __init__(self, fx):
        self.fx = fx
        self.ser = {}
        self.de = {}
        self.ser_fn = {}
        self.de_fn = {}
        for im in fx.impls:
            tr = norm(im.get("trait"))
            if tr not in ("serde::Serialize", "serde::Deserialize"):
                continue
            key_ty = im.get("self_adt") or im["self_ty"]
            for m in im["methods"]:
                if m["key"] not in fx.fns:
                    continue
                if tr == "serde::Serialize" and m["name"] == "serialize":
                    # derive helper impls (__SerializeWith etc.) are nested types: skip those
                    if "__SerializeWith" in im["self_ty"] or "__AdjacentlyTagged" in im["self_ty"]:
                        continue
                    self.ser_fn[key_ty] = fx.fns[m["key"]]
                if tr == "serde::Deserialize" and m["name"] == "deserialize":
                    if "__Field" in im["self_ty"] or "__DeserializeWith" in im["self_ty"] or "__Visitor" in im["self_ty"]:
                        continue
                    self.de_fn[key_ty] = fx.fns[m["key"]]
        for ty, f in self.ser_fn.items():
            self.ser[ty] = self._ser(ty, f)
        for ty, f in self.de_fn.items():
            self.de[ty] = self._de(ty, f)

    # ------------------------------------------------------------------------------------------
    def _ser(self, ty, f):
        b = body_of(self.fx, f["key"])
        out = {"type": ty, "derived": bool(f.get("exp")), "at": f["at"], "kind": [], "entries": [], "flatten": [], "variants": [],
               "delegates": [], "skips": [], "fn": f["path"]}
        for i, t in b.calls():
            n = callee_name(t) or ""
            last = n.split("::")[-1]
            tr = norm(t.get("trait")) or ""
            if tr == "serde::Serializer":
                out["kind"].append(last)
                if last in ("serialize_struct", "serialize_newtype_struct", "serialize_tuple_struct", "serialize_unit_struct"):
                    out["name"] = const_str(b, t["args"][1])
                if last in ("serialize_unit_variant", "serialize_newtype_variant", "serialize_struct_variant", "serialize_tuple_variant"):
                    out["variants"].append({"wire": const_str(b, t["args"][3]), "style": last, "arm": self._arm(b, i)})
                if last == "serialize_newtype_struct":
                    out["entries"].append({"key": None, "field": self_field(b, t["args"][2]), "guard": None, "at": t["at"]})
            elif tr in ("serde::ser::SerializeStruct", "serde::ser::SerializeMap", "serde::ser::SerializeStructVariant"):
                if last in ("serialize_field", "serialize_entry"):
                    key = const_str(b, t["args"][1])
                    guards = []
                    for (e, fa) in b.facts_dominating(i):
                        p = as_pred(fa)
                        if p:
                            guards.append((norm(p[0]), p[2], self_field(b, p[1]["args"][0]) if p[1]["args"] else None))
                    vty = (t.get("generics") or ["", "", ""])
                    out["entries"].append({"key": key, "field": self_field(b, t["args"][2]), "guard": guards or None, "at": t["at"],
                                           "arm": self._arm(b, i), "value_ty": [g for g in vty if not g.startswith("'")][-1] if vty else None})
                elif last == "skip_field":
                    out["skips"].append(const_str(b, t["args"][1]))
            elif tr == "serde::Serialize" and last == "serialize":
                gens = " ".join(t.get("generics", []))
                if "FlatMapSerializer" in gens:
                    out["flatten"].append(self_field(b, t["args"][0]))
                else:
                    src = self_field(b, t["args"][0])
                    out["delegates"].append({"ty": (t.get("generics") or ["?"])[0], "src": src, "arm": self._arm(b, i), "at": t["at"]})
            elif t.get("callee_crate") == "in_toto":
                out["delegates"].append({"fn": _clean(n), "at": t["at"]})
        return out

    def _arm(self, b, bb):
        """Variant of `self` that dominates a block (for enum impls)."""
        arm = None
        for (e, fa) in b.facts_dominating(bb):
            if fa[0] == "variant":
                lv = b.trace(fa[1])
                if lv and all(l.kind == "param" and l.data == 1 and not l.path for l in lv):
                    arm = fa[2]
        return arm

    # ------------------------------------------------------------------------------------------
    def _de(self, ty, f):
        fx = self.fx
        prefix = f["key"] + "::"
        helpers = [g for g in fx.doc["fns"] if g["key"].startswith(prefix)]
        out = {"type": ty, "derived": bool(f.get("exp")), "at": f["at"], "keys": [], "deny_unknown": False, "ignores_unknown": False,
               "missing": [], "defaults": [], "value_tys": {}, "untagged": [], "kind": [], "delegates": [], "flatten": False,
               "variant_names": [], "fn": f["path"], "dups": []}
        b = body_of(fx, f["key"])
        for i, t in b.calls():
            n = callee_name(t) or ""
            last = n.split("::")[-1]
            tr = norm(t.get("trait")) or ""
            if tr == "serde::Deserializer":
                out["kind"].append(last)
                if last in ("deserialize_struct", "deserialize_newtype_struct", "deserialize_enum"):
                    out["name"] = const_str(b, t["args"][1])
            elif tr == "serde::Deserialize" and last == "deserialize":
                g0 = (t.get("generics") or ["?"])[0]
                gens = " ".join(t.get("generics", []))
                if "ContentRefDeserializer" in gens:
                    out["untagged"].append(g0)
                else:
                    out["delegates"].append({"ty": g0, "at": t["at"]})
            elif t.get("callee_crate") == "in_toto":
                out["delegates"].append({"fn": _clean(n), "at": t["at"]})
        for g in helpers:
            gname = g["path"]
            last = gname.split("::")[-1]
            gb = None
            is_field_visitor = "__FieldVisitor" in gname
            if is_field_visitor and last == "visit_str":
                gb = body_of(fx, g["key"])
                for i, t in gb.calls():
                    n = callee_name(t) or ""
                    if n in ("std::cmp::PartialEq::eq",) and len(t["args"]) == 2:
                        k = const_str(gb, t["args"][1]) or const_str(gb, t["args"][0])
                        if k is not None:
                            out["keys"].append(k)
                    if n in ("serde::de::Error::unknown_field", "serde::de::Error::unknown_variant"):
                        out["deny_unknown"] = True
                for blk in gb.blocks:
                    for st in blk["stmts"]:
                        if st["k"] == "assign" and st["rv"]["k"] == "agg" and st["rv"].get("variant") in ("__ignore", "__other"):
                            out["ignores_unknown"] = True
                # match on str can also lower to a SwitchInt on length + memcmp; the eq form is what serde_derive emits
            if "__Visitor" in gname and last in ("visit_map", "visit_seq", "visit_enum", "visit_newtype_struct"):
                gb = body_of(fx, g["key"])
                for i, t in gb.calls():
                    n = callee_name(t) or ""
                    l2 = n.split("::")[-1]
                    if l2 == "missing_field" and last == "visit_map":
                        k = const_str(gb, t["args"][0])
                        out["missing"].append(k)
                    elif n == "serde::de::Error::duplicate_field":
                        out["dups"].append(const_str(gb, t["args"][0]))
                    elif n == "std::default::Default::default" and last == "visit_map":
                        out["defaults"].append((t.get("generics") or ["?"])[0])
                    elif l2 in ("next_value", "next_element") and norm(t.get("trait")) in ("serde::de::MapAccess", "serde::de::SeqAccess"):
                        gens = [x for x in t.get("generics", []) if not x.startswith("'")]
                        out["value_tys"].setdefault(last, []).append(gens[-1] if gens else "?")
                    elif "FlatMapDeserializer" in " ".join(t.get("generics", [])) or "FlatMapDeserializer" in n:
                        out["flatten"] = True
            if "__FieldVisitor" in gname and last == "visit_str" and "visit_enum" in " ".join(h["path"] for h in helpers):
                out["variant_names"] = list(out["keys"])
        return out

    # ------------------------------------------------------------------------------------------
    def wire_closure(self, roots):
        """Local ADTs reachable from `roots` through field types (of ADTs that have serde impls)."""
        names = set(self.fx.adts)
        seen = set()
        stack = list(roots)
        while stack:
            a = stack.pop()
            if a in seen or a not in names:
                continue
            seen.add(a)
            adt = self.fx.adts[a]
            for v in adt["variants"]:
                for fl in v["fields"]:
                    for m in re.findall(r"[A-Za-z_][A-Za-z0-9_]*(?:::[A-Za-z_][A-Za-z0-9_]*)+", fl["ty"]):
                        if m in names:
                            stack.append(m)
            # shims: delegations to other local types
            for side in (self.ser.get(a), self.de.get(a)):
                if not side:
                    continue
                for d in side.get("delegates", []):
                    t = d.get("ty", "")
                    for m in re.findall(r"[A-Za-z_][A-Za-z0-9_]*(?:::[A-Za-z_][A-Za-z0-9_]*)+", t):
                        if m in names:
                            stack.append(m)
        return seen
