"""Helpers shared by rules: alias roots, dominating predicates/comparisons, call lookups."""
from .core import (Body, callee_name, norm, op_place, op_const, as_cmp, as_pred, proj_path, leaf_s, short, NEG, SWAP)


def root_ids(body, x, path=()):
    """Identity of what an operand/place *is*: frozenset of (kind, id, path) leaves."""
    out = set()
    for lf in body.trace(x, path):
        if lf.kind == "param":
            out.add(("param", lf.data, lf.path))
        elif lf.kind == "const":
            c = lf.data
            out.add(("const", str(c.get("str", c.get("int", c.get("repr")))), lf.path))
        elif lf.kind == "call":
            out.add(("call", lf.data[0], lf.path))
        elif lf.kind in ("agg", "discr", "binop", "unop", "other"):
            out.add((lf.kind, (lf.data[0], lf.data[1]), lf.path))
        elif lf.kind == "mut":
            out.add(("mut", lf.data[0], lf.path))
        else:
            out.add((lf.kind, str(lf.data), lf.path))
    return frozenset(out)


def same_root(body, x, y, px=(), py=()):
    a, b = root_ids(body, x, px), root_ids(body, y, py)
    return bool(a) and a == b


def roots_s(body, x, path=()):
    return "{" + ", ".join(sorted(leaf_s(body, l) for l in body.trace(x, path))) + "}"


def def_call(body, op):
    """If operand is a temporary whose single definition is a call, return (bb, term)."""
    p = op_place(op)
    if p is None or p["p"]:
        return None
    seen = set()
    l = p["l"]
    while l not in seen:
        seen.add(l)
        d = body.single_def(l)
        if d is None:
            return None
        if d.kind == "call":
            return (d.bb, d.node)
        rv = d.node["rv"]
        if rv["k"] in ("use", "cast"):
            q = op_place(rv["op"])
        elif rv["k"] == "ref":
            q = rv["place"]
        else:
            return None
        if q is None or proj_path(q):
            return None
        l = q["l"]
    return None


def dominating_preds(body, bb):
    out = []
    for (e, f) in body.facts_dominating(bb):
        p = as_pred(f)
        if p:
            out.append((e,) + p)
    return out


def dominating_cmps(body, bb):
    out = []
    for (e, f) in body.facts_dominating(bb):
        c = as_cmp(f)
        if c:
            out.append((e,) + c)
    return out


def dominating_variants(body, bb):
    out = []
    for (e, f) in body.facts_dominating(bb):
        if f[0] == "variant":
            out.append((e, f[1], f[2], f[3]))
    return out


def dominating_variant_sets(body, bb):
    """[(edge, place, set of variants still possible on that edge, pty)] for dominating match edges."""
    out = []
    for (e, f) in body.facts_dominating(bb):
        if f[0] == "variant":
            out.append((e, f[1], {f[2]}, f[3]))
        elif f[0] == "notvariant":
            out.append((e, f[1], set(f[4]) - set(f[2]), f[3]))
    return out


def const_int(body, op):
    """Integer value of an operand if it is (a copy of) a constant."""
    c = op_const(op)
    if c is not None:
        return c.get("int")
    vals = set()
    for lf in body.trace(op):
        if lf.kind == "const" and "int" in lf.data and not lf.path:
            vals.add(lf.data["int"])
        else:
            return None
    return vals.pop() if len(vals) == 1 else None


def int_interval_facts(body, bb, x):
    """Lower/upper bounds for integer operand x implied by dominating comparisons with constants.
    Returns (lo, hi) with None for unknown."""
    lo, hi = None, None
    for (e, op, a, b) in dominating_cmps(body, bb):
        ca, cb = const_int(body, a), const_int(body, b)
        if cb is not None and ca is None and same_root(body, a, x):
            o, c = op, cb
        elif ca is not None and cb is None and same_root(body, b, x):
            o, c = SWAP[op], ca
        else:
            continue
        if o == "Ge":
            lo = max(lo, c) if lo is not None else c
        elif o == "Gt":
            lo = max(lo, c + 1) if lo is not None else c + 1
        elif o == "Le":
            hi = min(hi, c) if hi is not None else c
        elif o == "Lt":
            hi = min(hi, c - 1) if hi is not None else c - 1
        elif o == "Eq":
            lo = hi = c
        elif o == "Ne" and c == 0:
            lo = max(lo, 1) if lo is not None else 1   # unsigned
    return lo, hi


# ---------------------------------------------------------------------------------------------
# interprocedural: which enum variants can a value have?
# ---------------------------------------------------------------------------------------------
_BODY_CACHE = {}


def body_of(fx, key):
    b = _BODY_CACHE.get((id(fx), key))
    if b is None:
        b = Body(fx.fns[key])
        _BODY_CACHE[(id(fx), key)] = b
    return b


def value_variants(fx, body, x, path=(), depth=0, stack=frozenset()):
    """Set of enum variant names the value `x`+path can hold, following aggregates and the return
    values of local callees (parameters of callees are resolved at the call site).  None = unknown."""
    out = set()
    for lf in body.trace(x, path):
        r = _leaf_variants(fx, body, lf, depth, stack)
        if r is None:
            return None
        out |= r
    return out


def _leaf_variants(fx, body, lf, depth, stack):
    if lf.kind == "agg":
        rv = lf.data[2]
        if rv.get("agg") == "adt" and not lf.path:
            return {rv["variant"]}
        return None
    if lf.kind == "call":
        bb, t = lf.data
        ck = t.get("resolved_key") or t.get("callee_key")
        if t.get("resolved_kind") == "Virtual" or ck not in fx.fns or ck in stack or depth > 8:
            return None
        cb = body_of(fx, ck)
        out = set()
        for rl in cb.trace({"l": 0, "p": []}, lf.path):
            if rl.kind == "param":
                ai = rl.data - 1
                if ai >= len(t["args"]):
                    return None
                r = value_variants(fx, body, t["args"][ai], rl.path, depth + 1, stack)
            else:
                r = _leaf_variants(fx, cb, rl, depth + 1, stack | {ck})
            if r is None:
                return None
            out |= r
        return out
    return None
