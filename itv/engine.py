"""Check harness: fact extraction (cached by tree hash, fail-closed), rule execution, floors,
known findings, evidence and replay files, output contract."""
import fcntl
import hashlib
import importlib
import json
import os
import re
import subprocess
import sys
import time
import uuid

from .facts import Facts
from .cg import CallGraph

VERIF = os.path.dirname(os.path.dirname(os.path.abspath(__file__)))
CACHE = os.path.join(VERIF, ".cache")
DRIVER = os.path.join(CACHE, "driver-target", "release", "itv-facts")
REPO = os.environ.get("ITV_REPO", "/repo")


def sh(cmd, **kw):
    return subprocess.run(cmd, shell=isinstance(cmd, str), stdout=subprocess.PIPE,
                          stderr=subprocess.STDOUT, text=True, **kw)


def nightly_sysroot():
    r = sh("rustc +nightly --print sysroot")
    return r.stdout.strip()


def build_driver():
    if os.path.exists(DRIVER):
        src = os.path.join(VERIF, "driver", "src", "main.rs")
        if os.path.getmtime(src) <= os.path.getmtime(DRIVER):
            return
    env = dict(os.environ, CARGO_NET_OFFLINE="true",
               CARGO_TARGET_DIR=os.path.join(CACHE, "driver-target"))
    r = sh("cargo +nightly build --release --offline", cwd=os.path.join(VERIF, "driver"), env=env)
    if r.returncode != 0 or not os.path.exists(DRIVER):
        sys.stdout.write(r.stdout)
        raise SystemExit("itv: cannot build the fact extractor (driver)")


def tree_hash(repo, profile):
    h = hashlib.sha256()
    h.update(profile.encode())
    files = []
    for root, dirs, fs in os.walk(os.path.join(repo, "src")):
        dirs.sort()
        for f in sorted(fs):
            files.append(os.path.join(root, f))
    for f in ("Cargo.toml", "Cargo.lock"):
        p = os.path.join(repo, f)
        if os.path.exists(p):
            files.append(p)
    files.append(DRIVER)
    for p in files:
        h.update(os.path.relpath(p, repo).encode() if p.startswith(repo) else b"driver")
        with open(p, "rb") as fh:
            h.update(hashlib.sha256(fh.read()).digest())
    return h.hexdigest()[:24]


def extract_facts(repo=None, profile="dev", crate="in_toto"):
    """Returns (Facts, info).  Facts are cached by a hash of the analysed tree + driver; the driver
    run is proved by a nonce (fail closed if the wrapper was skipped)."""
    repo = repo or REPO
    os.makedirs(CACHE, exist_ok=True)
    lock = open(os.path.join(CACHE, "facts.lock"), "w")
    fcntl.flock(lock, fcntl.LOCK_EX)
    try:
        build_driver()
        th = tree_hash(repo, profile)
        out_dir = os.path.join(CACHE, "facts", th)
        out = os.path.join(out_dir, crate + ".facts.json")
        info = {"tree_hash": th, "profile": profile, "repo": repo, "cached": True}
        if not os.path.exists(out):
            info["cached"] = False
            os.makedirs(out_dir, exist_ok=True)
            nonce = uuid.uuid4().hex
            target = os.environ.get("ITV_TARGET_DIR", os.path.join(CACHE, "target"))
            # cargo's freshness cache would skip the wrapper: force the member to be rebuilt
            prof_dir = "debug" if profile == "dev" else "release"
            fp = os.path.join(target, prof_dir, ".fingerprint")
            if os.path.isdir(fp):
                for d in os.listdir(fp):
                    if d.startswith("in-toto-"):
                        sh(["rm", "-rf", os.path.join(fp, d)])
            env = dict(os.environ)
            env.update({
                "LD_LIBRARY_PATH": nightly_sysroot() + "/lib",
                "RUSTFLAGS": "-Zmir-opt-level=0 -Awarnings",
                "RUSTC_WORKSPACE_WRAPPER": DRIVER,
                "CARGO_TARGET_DIR": target,
                "CARGO_NET_OFFLINE": "true",
                "ITV_OUT": out_dir,
                "ITV_NONCE": nonce,
                "ITV_CRATES": crate,
            })
            cmd = "cargo +nightly check --offline --lib" + (" --release" if profile == "release" else "")
            t0 = time.time()
            r = sh(cmd, cwd=repo, env=env)
            info["extract_s"] = round(time.time() - t0, 2)
            if r.returncode != 0:
                sh(["rm", "-rf", out_dir])
                sys.stdout.write(r.stdout[-4000:])
                raise SystemExit("itv: %s does not compile under the fact extractor" % repo)
            if not os.path.exists(out):
                sh(["rm", "-rf", out_dir])
                raise SystemExit("itv: fact extractor was not invoked (no facts file) - failing closed")
            with open(out) as fh:
                doc = json.load(fh)
            if doc.get("nonce") != nonce:
                sh(["rm", "-rf", out_dir])
                raise SystemExit("itv: stale facts (nonce mismatch) - failing closed")
        # bounded cache: keep the most recently used fact sets only
        try:
            os.utime(out_dir, None)
            root = os.path.join(CACHE, "facts")
            ents = sorted((os.path.getmtime(os.path.join(root, d)), d) for d in os.listdir(root))
            for (_m, d) in ents[:-16]:
                sh(["rm", "-rf", os.path.join(root, d)])
        except OSError:
            pass
        fx = Facts.load(out)
        info["fns"] = len(fx.doc["fns"])
        info["adts"] = len(fx.doc["adts"])
        info["impls"] = len(fx.doc["impls"])
        info["facts_file"] = out
        return fx, info
    finally:
        fcntl.flock(lock, fcntl.LOCK_UN)
        lock.close()


# ---------------------------------------------------------------------------------------------
class Ctx:
    def __init__(self, fx, tier, info):
        self.fx = fx
        self.tier = tier
        self.info = info
        self._cg = None
        self.instances = []
        self.notes = []
        self.analysed_fns = set()
        self.analysed_blocks = 0
        self.analysed_calls = 0
        self._regions = {}

    @property
    def cg(self):
        if self._cg is None:
            self._cg = CallGraph(self.fx)
        return self._cg

    def region(self, path, depth=None, policy=None, ps=False, key=None, skip_root_sites=()):
        """REGION super-graph of a function (by def path, or by key): private local callees inlined.
        policy: None (every non-public plain fn) | "private" (module-private only)."""
        from .cg import region_of_key, private_only_policy
        depth = depth or (8 if self.tier == "thorough" else 4)
        if key is None:
            key = self.fx.fn(path)["key"]
        k = (key, depth, policy, frozenset(skip_root_sites))
        if k not in self._regions:
            if policy == "private" or policy is None:
                from .cg import default_inline_policy
                base0 = private_only_policy(self.fx) if policy == "private" else default_inline_policy(self.fx)
                root_file = (self.fx.fns[key].get("at") or "").split(":")[0]
                # conversions written next to the root (`impl TryFrom<&X> for Tree` instead of `fn convert(&X) -> Result<Tree>`) are
                # its helpers in another spelling
                # ... and so are the methods of a local extension trait with a single implementor (`trait Agrees { fn agrees_with(..) }
                # impl Agrees for LinkMetadata`): an inherent helper method in another spelling
                local_traits = {t_["path"] for t_ in self.fx.doc.get("traits", [])}
                n_impls = {}
                for im in self.fx.impls:
                    if im.get("trait") in local_traits:
                        n_impls[im["trait"]] = n_impls.get(im["trait"], 0) + 1
                single = {t_ for t_, c_ in n_impls.items() if c_ == 1}
                pol = lambda fn: base0(fn) or (fn["kind"] == "AssocFn" and not fn.get("exp") and (fn.get("at") or "").split(":")[0] == root_file and
                                               ((fn.get("impl_trait") or "") in ("std::convert::From", "std::convert::TryFrom") or (fn.get("impl_trait") or "") in single))
            elif policy == "all-local":
                pol = lambda fn: fn["kind"] in ("Fn", "AssocFn")        # every local function, public ones and trait impls included
            elif isinstance(policy, tuple) and policy[0] == "private-except":
                base, excl = private_only_policy(self.fx), policy[1]
                pol = lambda fn: base(fn) and fn["path"] not in excl
            else:
                pol = None
            self._regions[k] = region_of_key(self.fx, key, depth, pol, frozenset(skip_root_sites))
            self.touch_body(self._regions[k])
        b = self._regions[k]
        if ps and not b.ps:
            b.enable_path_sensitivity()
        return b

    def touch_body(self, body):
        for i in body.reach:
            self.analysed_fns.add(body.blocks[i].get("origin", body.path))
        self.analysed_blocks += len(body.reach)
        self.analysed_calls += sum(1 for _ in body.calls())

    def touch_fn(self, fn):
        self.analysed_fns.add(fn["path"])
        self.analysed_blocks += len(fn["blocks"])
        self.analysed_calls += sum(1 for b in fn["blocks"] if b["term"] and b["term"]["k"] == "call")

    # one obligation of one rule
    def inst(self, rule, key, ok, detail, at=None, extra=None):
        d = {"rule": rule, "key": key, "ok": bool(ok), "detail": detail, "at": at}
        if extra:
            d["extra"] = extra
        self.instances.append(d)
        return bool(ok)

    def ok(self, rule, key, detail, at=None, extra=None):
        return self.inst(rule, key, True, detail, at, extra)

    def bad(self, rule, key, detail, at=None, extra=None):
        return self.inst(rule, key, False, detail, at, extra)

    def note(self, s):
        self.notes.append(s)


def mutant_self_test(prop):
    """Apply every registered seeded / reverse-fix patch of this property to a scratch copy of the current tree and
    record whether this property's check fires.  Informational: the verdict is only ever about /repo's tree."""
    import concurrent.futures
    out = {"caught": [], "missed": [], "inapplicable": []}
    ids = []
    for base in ("seeded", "mutants"):
        d = os.path.join(VERIF, base)
        if not os.path.isdir(d):
            continue
        for sid in sorted(os.listdir(d)):
            mp = os.path.join(d, sid, "meta.json")
            if os.path.exists(mp):
                try:
                    if json.load(open(mp)).get("property") == prop:
                        ids.append(sid)
                except ValueError:
                    pass
    def one(sid):
        r = sh([os.path.join(VERIF, "bin", "seedrun"), sid, "--props", prop, "-j", "1"])
        line = [l for l in r.stdout.splitlines() if l.startswith(sid)]
        return sid, (line[0] if line else r.stdout[-200:])
    with concurrent.futures.ThreadPoolExecutor(max_workers=8) as ex:
        for sid, line in ex.map(one, ids):
            if "CAUGHT" in line:
                out["caught"].append({"id": sid, "rules": line.split(" by ", 1)[-1].strip()})
            elif "ERROR" in line:
                out["inapplicable"].append({"id": sid, "why": line[:200]})
            else:
                out["missed"].append({"id": sid})
    out["summary"] = "%d caught, %d missed, %d inapplicable of %d registered mutations of this property" % (
        len(out["caught"]), len(out["missed"]), len(out["inapplicable"]), len(ids))
    return out


def slug(s):
    return re.sub(r"[^A-Za-z0-9_.-]+", "_", s)[:120]


def load_known():
    p = os.path.join(VERIF, "known_findings.json")
    if not os.path.exists(p):
        return {"findings": [], "fixed": []}
    with open(p) as fh:
        return json.load(fh)


def _apply_floors(mod, ctx):
    floors = getattr(mod, "FLOORS", {})
    if ctx.info.get("profile") == "release":
        floors = getattr(mod, "FLOORS_RELEASE", floors)
    counts = {}
    for i in ctx.instances:
        counts[i["rule"]] = counts.get(i["rule"], 0) + 1
    for rule, fl in floors.items():
        n = counts.get(rule, 0)
        if n < fl:
            ctx.bad(rule, "floor", "rule matched %d instance(s), floor is %d - the rule has lost its anchors (failing closed)" % (n, fl))
        else:
            ctx.ok(rule + "#floor", "floor", "%d instance(s) >= floor %d" % (n, fl))
    return floors, counts


def _run_rules(mod, prop, fx, tier, info):
    ctx = Ctx(fx, tier, info)
    try:
        mod.run(ctx)
    except Exception as e:  # a crashing rule must not pass
        import traceback
        traceback.print_exc()
        ctx.bad(prop + "/engine", "rule engine crashed", "exception %r - failing closed" % (e,))
    floors, counts = _apply_floors(mod, ctx)
    return ctx, floors, counts


def run_property(prop, tier="quick", replay=None, repo=None, quiet=False, write_evidence=True):
    t0 = time.time()
    mod = importlib.import_module("itv.rules." + prop)
    fx, info = extract_facts(repo)
    p = (lambda *a: None) if quiet else (lambda *a: print(*a))
    p("itv: property %s tier=%s repo=%s tree=%s facts=%s (%d bodies, %d ADTs, %d impls)" % (
        prop, tier, info["repo"], info["tree_hash"], "cached" if info["cached"] else "extracted in %ss" % info.get("extract_s"),
        info["fns"], info["adts"], info["impls"]))
    ctx, floors, counts = _run_rules(mod, prop, fx, tier, info)
    thorough = {}
    if tier == "thorough" and replay is None:
        # (a) the same rules on the release configuration (no debug assertions / overflow checks): no verdict may rest on debug-only MIR
        fx2, info2 = extract_facts(repo, profile="release")
        ctx2, floors2, counts2 = _run_rules(mod, prop, fx2, tier, info2)
        for i in ctx2.instances:
            j = dict(i)
            j["key"] = i["key"] + " [release profile]"
            ctx.instances.append(j)
        ctx.notes += ["[release] " + n for n in ctx2.notes]
        thorough["release_profile"] = {"tree_hash": info2["tree_hash"], "obligations": len(ctx2.instances),
                                       "discharged": sum(1 for i in ctx2.instances if i["ok"]), "mir_bodies": info2["fns"]}
        fx, info = extract_facts(repo)      # restore the registry of promoted constants for the dev facts
        # (b) extractor cross-check and (c) mutant self-test are supplied by the optional hooks below
        if hasattr(mod, "run_thorough"):
            try:
                mod.run_thorough(ctx)
            except Exception as e:
                import traceback
                traceback.print_exc()
                ctx.bad(prop + "/engine", "thorough rule engine crashed", "exception %r - failing closed" % (e,))
        if repo is None and not os.environ.get("ITV_NO_SELFTEST"):
            thorough["mutant_self_test"] = mutant_self_test(prop)
    known = load_known()
    known_keys = {(k["property"], k["rule"], k["key"]): k for k in known.get("findings", [])}
    violations = []
    known_hit = []
    for i in ctx.instances:
        if replay is not None and (i["rule"], i["key"]) != replay:
            continue
        mark = "ok  " if i["ok"] else "FAIL"
        p("  [%s] %s :: %s :: %s%s" % (mark, i["rule"], i["key"], i["detail"], ("  @ " + i["at"]) if i.get("at") else ""))
        if not i["ok"]:
            kk = (prop, i["rule"], i["key"])
            if kk in known_keys:
                known_hit.append((i, known_keys[kk]))
            else:
                violations.append(i)
    for n in ctx.notes:
        p("  note: " + n)
    wall = round(time.time() - t0, 2)
    if write_evidence:
        os.makedirs(os.path.join(VERIF, "evidence", "replay"), exist_ok=True)
    for (i, k) in known_hit:
        print("KNOWN-FINDING: property=%s %s :: %s (%s)" % (prop, i["rule"], i["key"], k.get("what", i["detail"])))
    seen = set()
    for i in violations:
        rp = os.path.join(VERIF, "evidence", "replay", "%s-%s.json" % (prop, slug(i["rule"] + "-" + i["key"])))
        if rp in seen:
            continue
        seen.add(rp)
        if not write_evidence:
            print("VIOLATION property=%s replay=%s (not written)" % (prop, rp))
            continue
        with open(rp, "w") as fh:
            json.dump({"property": prop, "rule": i["rule"], "key": i["key"], "detail": i["detail"],
                       "at": i.get("at"), "extra": i.get("extra"), "tree": info["tree_hash"],
                       "repo": info["repo"]}, fh, indent=1)
        print("VIOLATION property=%s replay=%s" % (prop, rp))
    if write_evidence and replay is None:
        obligations = [i for i in ctx.instances]
        ev = {
            "property_id": prop,
            "tier": tier,
            "seed": int(os.environ.get("VERIF_SEED", "0") or 0),
            "level": "other",
            "coverage": {
                "explanation": getattr(mod, "EXPLANATION", ""),
                "obligations": len(obligations),
                "discharged": sum(1 for i in obligations if i["ok"]),
                "known_findings_reported": len(known_hit),
                "rule_instance_counts": counts,
                "floors": floors,
                "functions_analysed": len(ctx.analysed_fns),
                "functions_analysed_list": sorted(ctx.analysed_fns)[:400],
                "blocks_analysed": ctx.analysed_blocks,
                "call_sites_analysed": ctx.analysed_calls,
                "mir_bodies_in_crate": info["fns"],
                "tree_hash": info["tree_hash"],
                "samples": [{"rule": i["rule"], "key": i["key"], "ok": i["ok"], "detail": i["detail"], "at": i.get("at")}
                            for i in obligations][:300],
                "checker_cmd": "./bin/check %s --tier %s" % (prop, tier),
                "trusted_base": getattr(mod, "TRUSTED", []) + [
                    "rustc type checker, MIR construction (opt-level 0) and Instance::try_resolve",
                    "itv-facts extractor and the itv rule engine"],
                "decided_clauses": getattr(mod, "DECIDED", []),
                "undecided": getattr(mod, "UNDECIDED", []),
                "notes": ctx.notes,
                "exhaustive": True,
            },
            "assumptions": getattr(mod, "ASSUMPTIONS", []),
            "wall_s": wall,
            "violations": len(violations),
        }
        if thorough:
            ev["coverage"]["thorough"] = thorough
        if hasattr(ctx, "extra_coverage"):
            ev["coverage"].update(ctx.extra_coverage)
        with open(os.path.join(VERIF, "evidence", prop + ".json"), "w") as fh:
            json.dump(ev, fh, indent=1)
    p("itv: %s: %d obligations, %d discharged, %d known finding(s), %d violation(s), %.1fs" % (
        prop, len(ctx.instances), sum(1 for i in ctx.instances if i["ok"]), len(known_hit), len(violations), wall))
    return (1 if violations else 0), ctx, violations, known_hit
