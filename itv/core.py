"""Core analyses over one MIR body (or an inlined super-graph): CFG, dominators, edge dominance,
definitions, value provenance with frozen std summaries, guard facts, outcome discipline."""
import re
from collections import namedtuple, deque

# ---------------------------------------------------------------------------------------------
# names
# ---------------------------------------------------------------------------------------------
_GEN = re.compile(r"::<[^<>]*(?:<[^<>]*(?:<[^<>]*(?:<[^<>]*>[^<>]*)*>[^<>]*)*>[^<>]*)*>")


_SERDE = re.compile(r"[A-Za-z0-9_:#]*::_serde::")


def norm(name):
    """`std::collections::HashMap::<K, V, S>::get` -> `std::collections::HashMap::get`."""
    if name is None:
        return None
    prev = None
    while prev != name:
        prev = name
        name = _GEN.sub("", name)
    if "_serde::" in name:
        name = _SERDE.sub("serde::", name)
    return name


def callee_name(t):
    return norm(t.get("callee"))


def short(name):
    """last two path segments: `HashMap::get`."""
    n = norm(name) or ""
    parts = n.split("::")
    return "::".join(parts[-2:])


# ---------------------------------------------------------------------------------------------
# places / operands
# ---------------------------------------------------------------------------------------------
def op_place(op):
    if op is None:
        return None
    if "copy" in op:
        return op["copy"]
    if "move" in op:
        return op["move"]
    return None


def op_const(op):
    return op.get("const") if op else None


def proj_path(place):
    """Projection of a place as a tuple of path elements; derefs are dropped (a pointer and its
    pointee are not distinguished)."""
    out = []
    for e in place["p"]:
        if e == "*" or isinstance(e, str):
            continue
        if "f" in e:
            out.append(("f", e["f"]))
        elif "d" in e:
            out.append(("v", e["d"]))
        elif "idx" in e or "ci" in e or "sub" in e:
            out.append(("elem",))
    return tuple(out)


def path_s(path):
    s = ""
    for e in path:
        if e[0] == "f":
            s += "." + e[1]
        elif e[0] == "v":
            s += " as " + e[1]
        else:
            s += "[]"
    return s


PROMOTED = {}          # owner fn key -> list of promoted mini-bodies (filled by facts.Facts)
_PROMOTED_BODIES = {}


def _promoted_body(owner, idx):
    k = (owner, idx)
    b = _PROMOTED_BODIES.get(k)
    if b is None:
        fn = dict(PROMOTED[owner][idx])
        fn.setdefault("key", "%s::promoted[%d]" % (owner, idx))
        fn.setdefault("path", fn["key"])
        b = Body(fn)
        _PROMOTED_BODIES[k] = b
    return b


Def = namedtuple("Def", "kind bb idx node")  # kind: assign | call ; node: stmt | terminator
Leaf = namedtuple("Leaf", "kind data path via")


def leaf_s(body, lf):
    via = ("  via " + ">".join(lf.via)) if lf.via else ""
    if lf.kind == "param":
        return "param %s%s%s" % (body.local_name(lf.data), path_s(lf.path), via)
    if lf.kind == "const":
        c = lf.data
        v = c.get("str", c.get("int", c.get("fn", c.get("repr"))))
        return "const %r%s" % (v, via)
    if lf.kind == "call":
        bb, t = lf.data
        return "call %s@bb%d%s%s" % (short(t.get("callee")), bb, path_s(lf.path), via)
    if lf.kind == "upvar":
        return "upvar %s%s%s" % (lf.data, path_s(lf.path), via)
    return "%s %s%s%s" % (lf.kind, "", path_s(lf.path), via)


# ---------------------------------------------------------------------------------------------
# std summaries: how a path on the result of a call maps to a path on one of its arguments.
# (result_prefix, arg_index, arg_prefix).  ELEM is the abstract element of a collection/iterator;
# map elements are pairs: .0 key, .1 value.
# ---------------------------------------------------------------------------------------------
ELEM = ("elem",)
F0, F1 = ("f", "0"), ("f", "1")
SOME, NONE_, OK, ERR = ("v", "Some"), ("v", "None"), ("v", "Ok"), ("v", "Err")
CONT, BRK = ("v", "Continue"), ("v", "Break")

IDENT = [((), 0, ())]
_CONSTRUCTORS = {"std::vec::Vec::new", "std::vec::Vec::with_capacity", "std::collections::HashMap::new", "std::collections::HashMap::with_capacity",
                 "std::collections::BTreeMap::new", "std::collections::HashSet::new", "std::collections::BTreeSet::new",
                 "std::collections::VecDeque::new", "std::default::Default::default"}

SUMMARIES = {
    # identity-like
    "std::clone::Clone::clone": IDENT,
    "std::borrow::ToOwned::to_owned": IDENT,
    "std::ops::Deref::deref": IDENT,
    "std::ops::DerefMut::deref_mut": IDENT,
    "std::convert::AsRef::as_ref": IDENT,
    "std::borrow::Borrow::borrow": IDENT,
    "std::convert::Into::into": IDENT,
    "std::convert::From::from": IDENT,
    "std::string::ToString::to_string": IDENT,
    "std::string::String::as_str": IDENT,
    "std::string::String::as_bytes": IDENT,
    "core::str::as_bytes": IDENT,
    "str::as_bytes": IDENT,
    "std::vec::Vec::as_slice": IDENT,
    "std::path::Path::new": IDENT,
    "std::boxed::Box::new": IDENT,
    "std::boxed::box_assume_init_into_vec_unsafe": IDENT,
    "std::boxed::Box::assume_init": IDENT,
    "std::slice::into_vec": IDENT, "core::slice::into_vec": IDENT, "slice::into_vec": IDENT,
    "std::option::Option::as_ref": IDENT,
    "std::option::Option::as_deref": IDENT,
    "std::option::Option::as_mut": IDENT,
    "std::option::Option::cloned": IDENT,
    "std::option::Option::copied": IDENT,
    "std::result::Result::as_ref": IDENT,
    "std::iter::Iterator::cloned": IDENT,
    "std::iter::Iterator::copied": IDENT,
    "std::iter::Iterator::rev": IDENT,
    "std::iter::Iterator::by_ref": IDENT,
    "std::iter::Iterator::peekable": IDENT,
    "std::iter::Iterator::filter": IDENT,       # element flow only; filtering is a guard concern
    "std::iter::Iterator::take": IDENT,
    "std::iter::Iterator::skip": IDENT,
    "std::iter::IntoIterator::into_iter": IDENT,
    "std::iter::Iterator::collect": IDENT,
    "std::iter::FromIterator::from_iter": IDENT,
    "std::slice::iter": IDENT, "core::slice::iter": IDENT, "slice::iter": IDENT,
    "std::slice::iter_mut": IDENT, "slice::iter_mut": IDENT,
    "std::vec::Vec::iter": IDENT,
    "serde_json::Map::iter": IDENT,
    "serde_json::Map::values": [((ELEM,), 0, (ELEM, F1))],
    "serde_json::Map::keys": [((ELEM,), 0, (ELEM, F0))],
    "std::collections::HashMap::iter": IDENT,
    "std::collections::HashMap::iter_mut": IDENT,
    "std::collections::BTreeMap::iter": IDENT,
    "std::collections::HashSet::iter": IDENT,
    "std::collections::BTreeSet::iter": IDENT,
    "std::collections::HashMap::values": [((ELEM,), 0, (ELEM, F1))],
    "std::collections::HashMap::into_values": [((ELEM,), 0, (ELEM, F1))],
    "std::collections::HashMap::values_mut": [((ELEM,), 0, (ELEM, F1))],
    "std::collections::HashMap::keys": [((ELEM,), 0, (ELEM, F0))],
    "std::collections::HashMap::into_keys": [((ELEM,), 0, (ELEM, F0))],
    "std::collections::BTreeMap::values": [((ELEM,), 0, (ELEM, F1))],
    "std::collections::BTreeMap::keys": [((ELEM,), 0, (ELEM, F0))],
    "std::collections::HashMap::get": [((SOME, F0), 0, (ELEM, F1))],
    "std::collections::HashMap::remove": [((SOME, F0), 0, (ELEM, F1))],
    "std::collections::BTreeMap::remove": [((SOME, F0), 0, (ELEM, F1))],
    "std::collections::HashMap::get_key_value": [((SOME, F0), 0, (ELEM,))],
    "std::collections::HashMap::get_mut": [((SOME, F0), 0, (ELEM, F1))],
    "std::collections::BTreeMap::get": [((SOME, F0), 0, (ELEM, F1))],
    "std::ops::Index::index": [((), 0, (ELEM,))],
    "std::ops::IndexMut::index_mut": [((), 0, (ELEM,))],
    "std::iter::Iterator::enumerate": [((ELEM, F1), 0, (ELEM,))],
    "std::iter::Iterator::chain": [((ELEM,), 0, (ELEM,)), ((ELEM,), 1, (ELEM,))],
    "std::iter::Iterator::flatten": [((ELEM,), 0, (ELEM, ELEM))],
    "std::option::Option::into_iter": [((ELEM,), 0, (SOME, F0))],
    "std::option::Option::as_deref": [((SOME, F0), 0, (SOME, F0))],
    "std::iter::Iterator::next": [((SOME, F0), 0, (ELEM,))],
    "std::iter::Iterator::last": [((SOME, F0), 0, (ELEM,))],
    "std::iter::Iterator::nth": [((SOME, F0), 0, (ELEM,))],
    "std::iter::Iterator::min": [((SOME, F0), 0, (ELEM,))],
    "std::iter::Iterator::max": [((SOME, F0), 0, (ELEM,))],
    "std::iter::Iterator::min_by": [((SOME, F0), 0, (ELEM,))],
    "std::iter::Iterator::max_by": [((SOME, F0), 0, (ELEM,))],
    "std::iter::Iterator::min_by_key": [((SOME, F0), 0, (ELEM,))],
    "std::iter::Iterator::max_by_key": [((SOME, F0), 0, (ELEM,))],
    "std::iter::Iterator::find": [((SOME, F0), 0, (ELEM,))],
    "std::slice::first": [((SOME, F0), 0, (ELEM,))], "slice::first": [((SOME, F0), 0, (ELEM,))],
    "std::slice::last": [((SOME, F0), 0, (ELEM,))], "slice::last": [((SOME, F0), 0, (ELEM,))],
    "slice::get": [((SOME, F0), 0, (ELEM,))],
    "core::slice::first": [((SOME, F0), 0, (ELEM,))], "core::slice::last": [((SOME, F0), 0, (ELEM,))],
    "core::slice::iter": IDENT,
    # Option / Result plumbing
    "std::ops::Try::branch": lambda t: (
        [((CONT, F0), 0, (SOME, F0))] if (t.get("arg_tys") or [""])[0].startswith("std::option::Option")
        else [((CONT, F0), 0, (OK, F0)), ((BRK, F0, ERR, F0), 0, (ERR, F0))]),
    "std::ops::FromResidual::from_residual": [((ERR, F0), 0, (ERR, F0)), ((OK,), 0, None), ((SOME,), 0, None)],
    "std::option::Option::unwrap": [((), 0, (SOME, F0))],
    "std::option::Option::expect": [((), 0, (SOME, F0))],
    "std::option::Option::unwrap_or": [((), 0, (SOME, F0)), ((), 1, ())],
    "std::option::Option::unwrap_or_default": [((), 0, (SOME, F0))],
    "std::option::Option::ok_or": [((OK, F0), 0, (SOME, F0)), ((ERR, F0), 1, ())],
    "std::option::Option::ok_or_else": [((OK, F0), 0, (SOME, F0))],
    "std::result::Result::unwrap": [((), 0, (OK, F0))],
    "std::result::Result::expect": [((), 0, (OK, F0))],
    "std::result::Result::unwrap_or": [((), 0, (OK, F0)), ((), 1, ())],
    "std::result::Result::unwrap_or_default": [((), 0, (OK, F0))],
    "std::result::Result::ok": [((SOME, F0), 0, (OK, F0))],
    "std::result::Result::err": [((SOME, F0), 0, (ERR, F0))],
    "std::result::Result::map_err": [((OK, F0), 0, (OK, F0))],
    "std::result::Result::or_else": [((OK, F0), 0, (OK, F0))],
}


def summary_for(t):
    n = callee_name(t)
    s = SUMMARIES.get(n)
    if callable(s):
        return s(t)
    if s is not None:
        return s
    # inherent methods of primitive types print as `core::str::<impl str>::as_bytes` etc.
    return None


# ---------------------------------------------------------------------------------------------
# Body
# ---------------------------------------------------------------------------------------------
class Body:
    def __init__(self, fn):
        self.fn = fn
        self.key = fn["key"]
        self.path = fn["path"]
        self.blocks = fn["blocks"]
        self.locals = fn["locals"]
        self.argc = fn["arg_count"]
        n = len(self.blocks)
        self.succ = [[] for _ in range(n)]
        for i, b in enumerate(self.blocks):
            t = b["term"]
            if not t or b["cleanup"]:
                continue
            k = t["k"]
            if k == "goto":
                self.succ[i].append((t["target"], ("goto",)))
            elif k == "switch":
                # arms that lead to the same block (`A | B => ..`) are one edge: it is taken when the value is any of them
                by_tgt = {}
                for v, tb in t["arms"]:
                    by_tgt.setdefault(tb, []).append(v)
                done = set()
                for v, tb in t["arms"]:
                    if tb in done:
                        continue
                    done.add(tb)
                    vs = by_tgt[tb]
                    self.succ[i].append((tb, ("sw", vs[0]) if len(vs) == 1 else ("swm", tuple(vs))))
                self.succ[i].append((t["otherwise"], ("other",)))
            elif k in ("call", "drop", "assert"):
                if t.get("target") is not None:
                    self.succ[i].append((t["target"], (k,)))
        self.pred = [[] for _ in range(n)]
        for i in range(n):
            for j, (tb, _) in enumerate(self.succ[i]):
                self.pred[tb].append((i, j))
        self.ps = False
        self._x = None
        self.reach = self._reach_from(0, None)
        self._idom = None
        self._defs = None
        self._edge_dom_cache = {}
        self._mut_cache = None
        self._mem = None

    # -- naming ---------------------------------------------------------------------------------
    def local_name(self, l):
        n = self.locals[l].get("name")
        return "%s(_%d)" % (n, l) if n else "_%d" % l

    def local_ty(self, l):
        return self.locals[l]["ty"]

    def at(self, bb):
        t = self.blocks[bb]["term"]
        return t["at"] if t else "?"

    def origin(self, bb):
        return self.blocks[bb].get("origin", self.path)

    # -- reachability ---------------------------------------------------------------------------
    def _reach_from(self, start, removed_edge, removed_blocks=()):
        seen = {start}
        dq = deque([start])
        while dq:
            b = dq.popleft()
            for j, (tb, _) in enumerate(self.succ[b]):
                if removed_edge is not None and (b, j) == removed_edge:
                    continue
                if tb in removed_blocks:
                    continue
                if tb not in seen:
                    seen.add(tb)
                    dq.append(tb)
        return seen

    def reach_from(self, start):
        return self._reach_from(start, None)

    def edge_dominated(self, edge):
        """Set of blocks every entry path to which takes `edge` = (src_bb, succ_index)."""
        r = self._edge_dom_cache.get(edge)
        if r is None:
            if self.ps:
                r = self.reach - self._x_reach(removed_edge=edge)
            else:
                r = self.reach - self._reach_from(0, edge)
            self._edge_dom_cache[edge] = r
        return r

    def edge_dominates(self, edge, bb):
        return bb in self.edge_dominated(edge)

    def block_dominated(self, dom):
        """Blocks unreachable when block `dom` is removed (dom itself included)."""
        key = ("b", dom)
        r = self._edge_dom_cache.get(key)
        if r is None:
            if dom == 0:
                r = set(self.reach)
            elif self.ps:
                r = self.reach - self._x_reach(removed_block=dom)
            else:
                r = self.reach - self._reach_from(0, None, removed_blocks=(dom,))
            self._edge_dom_cache[key] = r
        return r

    def dominates(self, a, b):
        if not self.ps:
            return self.dom_plain(a, b)
        return b in self.block_dominated(a)

    def edges(self):
        for i in self.reach:
            for j, (tb, lab) in enumerate(self.succ[i]):
                yield (i, j), tb, lab

    # -- path-sensitive (variant-refined) exploded graph ------------------------------------------
    def enable_path_sensitivity(self):
        """Refine reachability with the statically known variant of Result/Option/ControlFlow
        temporaries (set by an aggregate, moved, converted by Try::branch / from_residual, tested by a
        discriminant switch).  Only infeasible edges are pruned, so dominance results stay sound."""
        self.ps = True
        self._edge_dom_cache = {}
        self._build_exploded()
        self.reach = {b for (b, _st) in self._x["nodes"]}
        self._all_facts = None

    _TRACK = ("std::result::Result<", "std::option::Option<", "std::ops::ControlFlow<")

    def _tracked(self, l):
        ty = self.locals[l]["ty"]
        if ty.startswith(self._TRACK):
            return True
        return ty == "bool" and l in self._bool_rets

    def _compute_bool_rets(self):
        """bool-typed return places of inlined instances and the locals their value is moved into."""
        rets = {l for l in self.fn.get("ret_locals", []) if l != 0 and self.locals[l]["ty"] == "bool"}
        out = set(rets)
        for b in self.blocks:
            if b["cleanup"]:
                continue
            for st in b["stmts"]:
                if st["k"] == "assign" and st.get("synthetic") == "return" and not st["dst"]["p"]:
                    src = op_place(st["rv"]["op"])
                    if src is not None and src["l"] in rets and self.locals[st["dst"]["l"]]["ty"] == "bool":
                        out.add(st["dst"]["l"])
        # bool temporaries that only ever receive constants (the lowering of `matches!`, `&&`, `||`): their value is the
        # path taken; they die at the switch that consumes them
        const_only = {}
        for b in self.blocks:
            if b["cleanup"]:
                continue
            for st in b["stmts"]:
                if st["k"] == "assign" and not st["dst"]["p"] and self.locals[st["dst"]["l"]]["ty"] == "bool":
                    l = st["dst"]["l"]
                    c = op_const(st["rv"]["op"]) if st["rv"]["k"] == "use" else None
                    const_only[l] = const_only.get(l, True) and c is not None and "int" in c
            t = b["term"]
            if t and t["k"] == "call" and not t["dst"]["p"] and self.locals[t["dst"]["l"]]["ty"] == "bool":
                const_only[t["dst"]["l"]] = False
        out |= {l for l, v in const_only.items() if v and not self.locals[l].get("name")}
        return out

    @staticmethod
    def _reads(node, out):
        """Locals read anywhere inside a JSON node (operands, places of refs / discriminants, index locals)."""
        if isinstance(node, dict):
            if "l" in node and "p" in node and isinstance(node.get("l"), int):
                out.add(node["l"])
                for e in node["p"]:
                    if isinstance(e, dict) and "idx" in e:
                        out.add(e["idx"])
                return
            for v in node.values():
                Body._reads(v, out)
        elif isinstance(node, list):
            for v in node:
                Body._reads(v, out)

    def _live_in(self):
        """Backward liveness of locals per block (non-cleanup CFG)."""
        n = len(self.blocks)
        use = [set() for _ in range(n)]
        deff = [set() for _ in range(n)]
        for i, b in enumerate(self.blocks):
            if b["cleanup"]:
                continue
            u, d = use[i], deff[i]
            for st in b["stmts"]:
                r = set()
                if st["k"] == "assign":
                    self._reads(st["rv"], r)
                    if st["dst"]["p"]:
                        self._reads(st["dst"], r)
                else:
                    self._reads(st.get("dst"), r)
                u |= (r - d)
                if st["k"] == "assign" and not st["dst"]["p"]:
                    d.add(st["dst"]["l"])
            t = b["term"]
            if t:
                r = set()
                for k2 in ("args", "discr", "cond", "ops", "place", "func"):
                    if k2 in t:
                        self._reads(t[k2], r)
                if t["k"] == "call" and t["dst"]["p"]:
                    self._reads(t["dst"], r)
                if t["k"] == "return":
                    r.add(0)
                u |= (r - d)
                if t["k"] == "call" and not t["dst"]["p"]:
                    d.add(t["dst"]["l"])
        live = [set() for _ in range(n)]
        changed = True
        order = list(range(n))[::-1]
        while changed:
            changed = False
            for i in order:
                if self.blocks[i]["cleanup"]:
                    continue
                out = set()
                for (tb, _lab) in self.succ[i]:
                    out |= live[tb]
                nv = use[i] | (out - deff[i])
                if nv != live[i]:
                    live[i] = nv
                    changed = True
        return live

    def _build_exploded(self):
        self._bool_rets = set()
        self._bool_rets = self._compute_bool_rets()
        tainted = set()
        for b in self.blocks:
            if b["cleanup"]:
                continue
            for st in b["stmts"]:
                if st["k"] == "assign" and st["rv"]["k"] in ("ref", "rawptr") and st["rv"].get("mut", True):
                    if st["rv"]["k"] == "rawptr" or st["rv"]["mut"]:
                        tainted.add(st["rv"]["place"]["l"])
        self._tainted = tainted
        nodes = {}
        order = []
        adj = []

        def nid(b, st):
            k = (b, st)
            i = nodes.get(k)
            if i is None:
                i = len(order)
                nodes[k] = i
                order.append(k)
                adj.append(None)
            return i
        live = self._live_in()
        start = nid(0, frozenset())
        work = [start]
        while work:
            i = work.pop()
            if adj[i] is not None:
                continue
            b, st = order[i]
            outs = self._x_step(b, dict(st))
            lst = []
            for (j, tb, nst) in outs:
                lv = live[tb]
                # forgetting the variant of a local that is never read again is always sound, and keeps states mergeable
                k = nid(tb, frozenset((l, v) for (l, v) in nst.items() if l in lv))
                lst.append((k, (b, j)))
                if adj[k] is None:
                    work.append(k)
            adj[i] = lst
        self._x = {"nodes": nodes, "order": order, "adj": adj}

    def _x_step(self, b, st):
        """Abstract transfer of block b; returns [(succ_index, target, state)]."""
        blk = self.blocks[b]
        discr_of = {}   # local -> (place local, variants) for discriminant temporaries of this block
        for s_ in blk["stmts"]:
            if s_["k"] != "assign":
                continue
            d = s_["dst"]
            rv = s_["rv"]
            if d["p"]:
                continue
            l = d["l"]
            discr_of.pop(l, None)
            if rv["k"] == "discr" and not rv["place"]["p"]:
                discr_of[l] = (rv["place"]["l"], rv.get("variants", []))
                continue
            if not self._tracked(l) or l in self._tainted:
                continue
            if rv["k"] == "agg" and rv.get("agg") == "adt":
                st[l] = rv["variant"]
            elif rv["k"] == "use" and op_const(rv["op"]) is not None and self.locals[l]["ty"] == "bool" and "int" in op_const(rv["op"]):
                st[l] = "true" if op_const(rv["op"])["int"] else "false"
            elif rv["k"] == "use":
                q = op_place(rv["op"])
                if q is not None and not q["p"] and q["l"] in st:
                    st[l] = st[q["l"]]
                    if "move" in rv["op"]:
                        del st[q["l"]]
                else:
                    st.pop(l, None)
            else:
                st.pop(l, None)
        t = blk["term"]
        outs = []
        if not t:
            return outs
        k = t["k"]
        if k == "call":
            d = t["dst"]
            if not d["p"]:
                l = d["l"]
                n = callee_name(t)
                v = None
                a0 = op_place(t["args"][0]) if t["args"] else None
                av = st.get(a0["l"]) if (a0 is not None and not a0["p"]) else None
                if n == "std::ops::Try::branch" and av is not None:
                    v = {"Ok": "Continue", "Some": "Continue", "Err": "Break", "None": "Break"}.get(av)
                elif n == "std::ops::FromResidual::from_residual":
                    ty = self.locals[l]["ty"]
                    v = "Err" if ty.startswith("std::result::Result<") else ("None" if ty.startswith("std::option::Option<") else None)
                elif n in ("std::result::Result::map_err", "std::result::Result::map", "std::option::Option::map", "std::option::Option::cloned",
                           "std::option::Option::copied", "std::option::Option::as_ref", "std::option::Option::as_mut", "std::option::Option::as_deref",
                           "std::option::Option::as_deref_mut", "std::option::Option::inspect", "std::result::Result::as_ref", "std::result::Result::as_mut",
                           "std::result::Result::cloned", "std::result::Result::copied", "std::result::Result::inspect",
                           "std::result::Result::inspect_err") and av is not None:
                    v = av
                elif n in ("std::result::Result::ok",) and av is not None:
                    v = {"Ok": "Some", "Err": "None"}.get(av)
                elif n in ("std::result::Result::err",) and av is not None:
                    v = {"Ok": "None", "Err": "Some"}.get(av)
                elif n in ("std::option::Option::ok_or_else", "std::option::Option::ok_or") and av is not None:
                    v = {"Some": "Ok", "None": "Err"}.get(av)
                if v is not None and self._tracked(l) and l not in self._tainted:
                    st[l] = v
                else:
                    st.pop(l, None)
            # moved arguments lose their value
            for a in t["args"]:
                if "move" in a and not a["move"]["p"]:
                    st.pop(a["move"]["l"], None)
        if k == "switch":
            dp = op_place(t["discr"])
            known = None
            if dp is not None and not dp["p"] and dp["l"] in st and self.locals[dp["l"]]["ty"] == "bool":
                known = 1 if st[dp["l"]] == "true" else 0
            if dp is not None and not dp["p"] and dp["l"] in discr_of:
                src, variants = discr_of[dp["l"]]
                if src in st:
                    for (val, name) in variants:
                        if name == st[src]:
                            known = val
            if "move" in t["discr"] and dp is not None and not dp["p"]:
                st.pop(dp["l"], None)
            learn = None
            if dp is not None and not dp["p"] and dp["l"] in discr_of:
                src, variants = discr_of[dp["l"]]
                if self._tracked(src) and src not in self._tainted and src not in st:
                    learn = (src, variants)
            for j, (tb, lab) in enumerate(self.succ[b]):
                if known is not None:
                    if lab[0] == "sw" and lab[1] != known:
                        continue
                    if lab[0] == "swm" and known not in lab[1]:
                        continue
                    if lab[0] == "other" and any(v == known for v, _ in t["arms"]):
                        continue
                nst = dict(st)
                if learn is not None:
                    # the branch taken tells which variant the matched value holds
                    src, variants = learn
                    if lab[0] == "sw":
                        nm = [n_ for (v, n_) in variants if v == lab[1]]
                    elif lab[0] == "swm":
                        nm = [n_ for (v, n_) in variants if v in lab[1]]
                    else:
                        taken = {v for v, _ in t["arms"]}
                        nm = [n_ for (v, n_) in variants if v not in taken]
                    if len(nm) == 1:
                        nst[src] = nm[0]
                outs.append((j, tb, nst))
            return outs
        for j, (tb, lab) in enumerate(self.succ[b]):
            outs.append((j, tb, dict(st)))
        return outs

    def _x_reach(self, removed_edge=None, removed_block=None):
        x = self._x
        order, adj = x["order"], x["adj"]
        if removed_block == 0:
            return set()
        seen = {0}
        stack = [0]
        blocks = {order[0][0]}
        while stack:
            i = stack.pop()
            for (k, e) in adj[i]:
                if e == removed_edge or k in seen:
                    continue
                if removed_block is not None and order[k][0] == removed_block:
                    continue
                seen.add(k)
                blocks.add(order[k][0])
                stack.append(k)
        return blocks

    def reach_between(self, start_bb, removed_edges=(), removed_blocks=()):
        """Blocks reachable from any (exploded) node of start_bb, without the given edges/blocks."""
        removed_edges = set(removed_edges)
        removed_blocks = set(removed_blocks)
        if not self.ps:
            seen = {start_bb}
            stack = [start_bb]
            while stack:
                b = stack.pop()
                for j, (tb, _) in enumerate(self.succ[b]):
                    if (b, j) in removed_edges or tb in removed_blocks or tb in seen:
                        continue
                    seen.add(tb)
                    stack.append(tb)
            return seen
        x = self._x
        order, adj = x["order"], x["adj"]
        starts = [i for i, (b, _st) in enumerate(order) if b == start_bb]
        seen = set(starts)
        stack = list(starts)
        blocks = {start_bb}
        while stack:
            i = stack.pop()
            for (k, e) in adj[i]:
                if e in removed_edges or k in seen or order[k][0] in removed_blocks:
                    continue
                seen.add(k)
                blocks.add(order[k][0])
                stack.append(k)
        return blocks

    def edges_between(self, start_bb, removed_edges=(), removed_blocks=()):
        """CFG edges (b, j) traversed by some path from start_bb that avoids the given edges / blocks."""
        removed_edges = set(removed_edges)
        removed_blocks = set(removed_blocks)
        out = set()
        if not self.ps:
            for b in self.reach_between(start_bb, removed_edges, removed_blocks):
                for j, (tb, _) in enumerate(self.succ[b]):
                    if (b, j) not in removed_edges and tb not in removed_blocks:
                        out.add((b, j))
            return out
        x = self._x
        order, adj = x["order"], x["adj"]
        starts = [i for i, (b, _st) in enumerate(order) if b == start_bb]
        seen = set(starts)
        stack = list(starts)
        while stack:
            i = stack.pop()
            for (k, e) in adj[i]:
                if e in removed_edges or order[k][0] in removed_blocks:
                    continue
                out.add(e)
                if k not in seen:
                    seen.add(k)
                    stack.append(k)
        return out

    def is_return_tail(self, tb):
        """Every path from tb to Return is free of calls and of assignments to the return place."""
        c = getattr(self, "_tail_cache", None)
        if c is None:
            c = self._tail_cache = {}
        if tb in c:
            return c[tb]
        seen = set()
        stack = [tb]
        res = True
        while stack:
            b = stack.pop()
            if b in seen:
                continue
            seen.add(b)
            blk = self.blocks[b]
            if any(st["k"] == "assign" and st["dst"]["l"] == 0 for st in blk["stmts"]):
                res = False
                break
            t = blk["term"]
            if t is None or t["k"] == "call":
                res = False
                break
            for (nb, _) in self.succ[b]:
                stack.append(nb)
        c[tb] = res
        return res

    def _x_nodes_after_edge(self, edge):
        """Exploded nodes entered by taking `edge`."""
        x = self._x
        out = set()
        for i, lst in enumerate(x["adj"]):
            if x["order"][i][0] != edge[0]:
                continue
            for (k, e) in lst:
                if e == edge:
                    out.add(k)
        return out

    def _x_closure(self, starts, removed_blocks=()):
        x = self._x
        order, adj = x["order"], x["adj"]
        removed_blocks = set(removed_blocks)
        seen = set(starts)
        stack = list(starts)
        while stack:
            i = stack.pop()
            for (k, e) in adj[i]:
                if k in seen or order[k][0] in removed_blocks:
                    continue
                seen.add(k)
                stack.append(k)
        return seen

    def swallowed_errors(self, blocks, targets, local_pred):
        """Path-sensitive: blocks of `blocks` at which some local satisfying local_pred is known to hold an `Err`, and
        from which a block of `targets` can nevertheless be reached.  [(block, local)]"""
        if not (self.ps and self._x is not None):
            return None
        order, adj = self._x["order"], self._x["adj"]
        starts = {}
        for i, (b0, st) in enumerate(order):
            if b0 not in blocks:
                continue
            for (l, v) in st:
                if v == "Err" and local_pred(l):
                    starts.setdefault(i, l)
        out = []
        seen_blocks = set()
        for i, l in sorted(starts.items()):
            b0 = order[i][0]
            if b0 in seen_blocks:
                continue
            cl = self._x_closure([i])
            if any(order[k][0] in targets for k in cl):
                seen_blocks.add(b0)
                out.append((b0, l))
        return out

    def continuing_exits(self, loop):
        """Edges leaving `loop`, other than its exhaustion edges, that are not early `return Err(..)`s.
        An exit is an early error return iff on every path from its target the return place of the
        function instance the loop belongs to is assigned an Err (aggregate `Err`, or from_residual)
        before the path reaches another loop iteration (any Iterator::next), leaves the instance, or
        returns.  Everything else (break, continue-outer, return Ok(..)) is reported."""
        exh = set(self.loop_exhaustion_edges(loop))
        out = []
        for b in sorted(loop):
            if b not in self.reach:
                continue
            for j, (tb, lab) in enumerate(self.succ[b]):
                if tb in loop or (b, j) in exh:
                    continue
                if not self._is_err_return_path(b, tb, loop, j):
                    out.append((b, j))
        return out

    def _is_err_return_path(self, src, start, loop, j=None, root=False, removed_edges=(), stop_at_next=True):
        """root=True: judge against the return place of the region's root function, whatever inlined instance src is in."""
        ret = 0 if root else self.blocks[src].get("ret_local", 0)
        inst = None if root else self.blocks[src].get("inst", "")
        seen = set()
        xg = self._x if (self.ps and j is not None) else None
        if xg is not None:
            # path-sensitive: walk the exploded graph from the nodes entered over this edge
            order, adj = xg["order"], xg["adj"]
            stack = [k for i, (b0, _st) in enumerate(order) if b0 == src for (k, e) in adj[i] if e == (src, j)]
            succs = lambda n: [k for (k, e) in adj[n] if e not in removed_edges]
            block_of = lambda n: order[n][0]
        else:
            stack = [start]
            succs = lambda n: [nb for jj, (nb, _) in enumerate(self.succ[n]) if (n, jj) not in removed_edges]
            block_of = lambda n: n
        while stack:
            node = stack.pop()
            if node in seen:
                continue
            seen.add(node)
            b = block_of(node)
            if b in loop:
                return False
            blk = self.blocks[b]
            if inst is not None and blk.get("inst", "") != inst:
                return False
            assigned = None
            for st in blk["stmts"]:
                if st["k"] == "assign" and st["dst"]["l"] == ret and not st["dst"]["p"]:
                    rv = st["rv"]
                    assigned = "Err" if (rv["k"] == "agg" and rv.get("variant") == "Err") else "other"
            t = blk["term"]
            if t is None:
                return False
            if t["k"] == "call":
                n = callee_name(t)
                if t["dst"]["l"] == ret and not t["dst"]["p"]:
                    assigned = "Err" if n == "std::ops::FromResidual::from_residual" else "other"
                elif n == "std::iter::Iterator::next" and stop_at_next:
                    return False
            if assigned == "other" and xg is not None:
                # the value assigned is not syntactically an Err, but on this path it is known to be one (e.g. the Err
                # carried through Result::map / a move)
                nxt = succs(node)
                if nxt and all(dict(xg["order"][k][1]).get(ret) == "Err" for k in nxt):
                    assigned = "Err"
            if assigned == "Err":
                continue
            if assigned == "other":
                return False
            if t["k"] == "return" or (t.get("synthetic") == "return" and inst is not None):
                return False
            stack.extend(succs(node))
        return True

    def loops(self):
        """{header: natural loop blocks}."""
        r = getattr(self, "_loops", None)
        if r is None:
            r = {}
            for (e, tb) in self.back_edges():
                if tb not in r:
                    r[tb] = self.loop_blocks(tb)
            self._loops = r
        return r

    def loop_exhaustion_edges(self, loop):
        """For a loop driven by Iterator::next: the `None` edges of the driving next() result."""
        out = []
        for b in sorted(loop):
            t = self.blocks[b]["term"]
            if t and t["k"] == "call" and callee_name(t) in ("std::iter::Iterator::next",):
                if all(self.dom_plain(b, e[0]) for (e, tb) in self.back_edges() if tb in loop and self.loop_blocks(tb) == loop):
                    for (e, tb2, f) in self.all_edge_facts():
                        if f[0] == "variant" and f[2] == "None" and f[1]["l"] == t["dst"]["l"] and not proj_path(f[1]):
                            out.append(e)
        return out

    # -- terminators ----------------------------------------------------------------------------
    def calls(self, pred=None):
        for i in sorted(self.reach):
            t = self.blocks[i]["term"]
            if t and t["k"] == "call" and (pred is None or pred(t)):
                yield i, t

    def calls_named(self, *names):
        names = set(names)
        return list(self.calls(lambda t: callee_name(t) in names))

    def returns(self):
        return [i for i in sorted(self.reach) if self.blocks[i]["term"] and self.blocks[i]["term"]["k"] == "return"]

    # -- definitions ----------------------------------------------------------------------------
    @property
    def defs(self):
        if self._defs is None:
            d = {}
            for i, b in enumerate(self.blocks):
                if b["cleanup"]:
                    continue
                for j, st in enumerate(b["stmts"]):
                    if st["k"] == "assign":
                        d.setdefault(st["dst"]["l"], []).append(Def("assign", i, j, st))
                t = b["term"]
                if t and t["k"] == "call":
                    d.setdefault(t["dst"]["l"], []).append(Def("call", i, -1, t))
            self._defs = d
        return self._defs

    def single_def(self, l):
        ds = self.defs.get(l, [])
        return ds[0] if len(ds) == 1 else None

    @property
    def mutators(self):
        """local L -> list of (bb, call terminator, arg index) where `&mut L…` (possibly through a
        chain of reborrows) is passed to a call."""
        if self._mut_cache is None:
            # borrow temporaries: X = &mut P  (P based on L); reborrows `&mut *Y` inherit Y's base
            borrows = {}  # temp local -> base local
            changed = True
            while changed:
                changed = False
                for l, ds in self.defs.items():
                    if l in borrows:
                        continue
                    for d in ds:
                        if d.kind != "assign":
                            continue
                        rv = d.node["rv"]
                        base = None
                        if rv["k"] == "ref" and rv["mut"]:
                            pl = rv["place"]
                            if "*" in pl["p"]:
                                base = borrows.get(pl["l"], pl["l"])
                            else:
                                base = pl["l"]
                        elif rv["k"] == "use":
                            src = op_place(rv["op"])
                            if src is not None and not src["p"] and src["l"] in borrows:
                                base = borrows[src["l"]]
                        if base is not None:
                            borrows[l] = base
                            changed = True
                            break
            m = {}
            for i, t in self.calls():
                for ai, a in enumerate(t["args"]):
                    p = op_place(a)
                    if p and p["l"] in borrows and not p["p"]:
                        m.setdefault(borrows[p["l"]], []).append((i, t, ai))
            self._mut_cache = m
        return self._mut_cache

    # -- provenance -----------------------------------------------------------------------------
    def trace(self, x, path=(), opaque=None, transparent_extra=None, follow_mut=False, _seen=None, _via=(), _at=None):
        """Backward value provenance of an operand or place.  Returns a list of Leaf.
        `_at` = (block, statement index) of the read, when known: storage that is written through references (a struct
        updated by `&mut self` helpers) is then read flow-sensitively - only the writes that reach that point count."""
        if _seen is None:
            _seen = set()
        if "l" in x and "p" in x:
            place = x
        else:
            c = op_const(x)
            if c is not None:
                if "promoted" in c and c.get("promoted_of") in PROMOTED:
                    lst = PROMOTED[c["promoted_of"]]
                    if c["promoted"] < len(lst):
                        pb = _promoted_body(c["promoted_of"], c["promoted"])
                        inner = pb.trace({"l": 0, "p": []}, tuple(path))
                        if inner and all(l.kind == "const" for l in inner):
                            return [Leaf("const", l.data, l.path, _via) for l in inner]
                        if inner and all(l.kind in ("const", "agg") for l in inner):
                            return [Leaf(l.kind, l.data, l.path, _via) for l in inner]
                return [Leaf("const", c, tuple(path), _via)]
            place = op_place(x)
            if place is None:
                return [Leaf("unknown", x, tuple(path), _via)]
        if _at is not None:
            st = self.storage_of(place)
            if st is not None and st[0] in self.mem_writes:
                return self._trace_storage(st[0], st[1] + tuple(path), _at, opaque, transparent_extra, follow_mut, _seen, _via)
        l = place["l"]
        path = proj_path(place) + tuple(path)
        return self._trace_local(l, path, opaque, transparent_extra, follow_mut, _seen, _via)

    # -- storage written through references, read flow-sensitively ------------------------------------------
    def storage_of(self, place):
        """(base local, path) of the storage a place denotes, looking through references to locals:
        (*p).f with p = &mut x.g  ->  (x, g.f).  None when a deref does not resolve to a local's storage."""
        l, proj = place["l"], list(place["p"])
        for _ in range(12):
            if not proj or proj[0] != "*":
                break
            if 1 <= l <= self.argc:
                return None
            ds = [x for x in self.defs.get(l, []) if x.kind != "assign" or not x.node["dst"]["p"]]
            d = ds[0] if len(ds) == 1 else None
            if d is None or d.kind != "assign":
                return None
            rv = d.node["rv"]
            if rv["k"] == "ref":
                l, proj = rv["place"]["l"], list(rv["place"]["p"]) + proj[1:]
            elif rv["k"] == "use" and op_place(rv["op"]) is not None:
                q = op_place(rv["op"])
                l, proj = q["l"], list(q["p"]) + proj
            else:
                return None
        if "*" in proj:
            return None
        return l, proj_path({"l": l, "p": proj})

    @property
    def mem_writes(self):
        """base local -> {block: [(stmt index, storage path, Def)]} for every local some of whose storage is written through
        a reference; all writes (direct, through references, call results) are listed."""
        if self._mem is None:
            w, through = {}, set()
            for i in sorted(self.reach):
                b = self.blocks[i]
                if b["cleanup"]:
                    continue
                for j, st in enumerate(b["stmts"]):
                    if st["k"] != "assign":
                        continue
                    so = self.storage_of(st["dst"])
                    if so is None:
                        continue
                    if "*" in st["dst"]["p"]:
                        through.add(so[0])
                    w.setdefault(so[0], {}).setdefault(i, []).append((j, so[1], Def("assign", i, j, st)))
                t = b["term"]
                if t and t["k"] == "call":
                    so = self.storage_of(t["dst"])
                    if so is not None:
                        if "*" in t["dst"]["p"]:
                            through.add(so[0])
                        w.setdefault(so[0], {}).setdefault(i, []).append((10 ** 9, so[1], Def("call", i, -1, t)))
            self._mem = {k: v for k, v in w.items() if k in through}
        return self._mem

    def _reaching_writes(self, base, path, at):
        """Writes to storage (base, path) that reach the read at `at`; the second result is True when the function entry
        reaches it without a full overwrite."""
        ws = self.mem_writes[base]
        out, entry = [], False
        if at is None:
            for b in ws:
                for (j, wpath, d) in ws[b]:
                    n = min(len(wpath), len(path))
                    if wpath[:n] == path[:n]:
                        out.append((wpath, d))
            return out, (1 <= base <= self.argc)
        # candidates: every overlapping write; full overwrites kill.  A candidate counts if some FEASIBLE path (the
        # exploded graph when path sensitivity is on: an `Err` exit of a helper does not continue into the caller's Ok arm)
        # leads from it to the read without passing a full overwrite.
        cands, kills = [], {}
        for bb_, lst in ws.items():
            for (j, wpath, d) in lst:
                n = min(len(wpath), len(path))
                if wpath[:n] != path[:n]:
                    continue
                cands.append((bb_, j, wpath, d))
                if len(wpath) <= len(path):
                    kills.setdefault(bb_, []).append(j)
        for (bb_, j, wpath, d) in cands:
            if self._mem_reaches(bb_, j, at, kills):
                out.append((wpath, d))
        entry = self._mem_reaches(0, -1, at, kills)
        return out, entry

    def _mem_reaches(self, bw, jw, at, kills):
        br, ir = at
        def killed_between(b, lo, hi):
            return any(lo < k < hi for k in kills.get(b, ()))
        if bw == br and jw < ir and not killed_between(bw, jw, ir):
            return True
        if killed_between(bw, jw, 10 ** 10):
            return False
        if self.ps and self._x is not None:
            order, adj = self._x["order"], self._x["adj"]
            starts = [i for i, (b, _st) in enumerate(order) if b == bw]
            nxt = lambda i: [k for (k, _e) in adj[i]]
            blk = lambda i: order[i][0]
        else:
            starts = [bw]
            nxt = lambda i: [tb for (tb, _l) in self.succ[i]]
            blk = lambda i: i
        seen = set()
        stack = []
        for i in starts:
            for k in nxt(i):
                if k not in seen:
                    seen.add(k)
                    stack.append(k)
        while stack:
            i = stack.pop()
            b = blk(i)
            if b == br and not killed_between(b, -2, ir):
                return True
            if kills.get(b):
                continue
            for k in nxt(i):
                if k not in seen:
                    seen.add(k)
                    stack.append(k)
        return False

    def _trace_storage(self, base, path, at, opaque, textra, follow_mut, seen, via):
        k = ("mem", base, path, at)
        if k in seen:
            return []
        seen.add(k)
        if len(path) > 16 or len(via) > 64:
            return [Leaf("unknown", {"l": base, "p": []}, path, via)]
        ws, entry = self._reaching_writes(base, path, at)
        out = []
        if entry:
            out.append(Leaf("param", base, path, via) if 1 <= base <= self.argc else Leaf("undef", base, path, via))
        for (wpath, d) in ws:
            rest = path[len(wpath):] if len(path) >= len(wpath) else ()
            if d.kind == "assign":
                out += self._trace_rv(d.node["rv"], rest, d, opaque, textra, follow_mut, seen, via)
            else:
                out += self._trace_call(d.bb, d.node, rest, opaque, textra, follow_mut, seen, via)
        if follow_mut:
            for (bb, t, ai) in self.mutators.get(base, []):
                out.append(Leaf("mut", (bb, t, ai), path, via))
        return out

    def _trace_local(self, l, path, opaque, textra, follow_mut, seen, via):
        k = (l, path)
        if k in seen:
            return []
        seen.add(k)
        if len(path) > 16 or len(via) > 64:
            # a path that keeps growing through a cycle of summaries (slicing in a loop): stop with an explicit unknown leaf
            return [Leaf("unknown", {"l": l, "p": []}, path, via)]
        out = []
        ds = self.defs.get(l, [])
        if 1 <= l <= self.argc:
            out.append(Leaf("param", l, path, via))
        elif not ds:
            out.append(Leaf("undef", l, path, via))
        for d in ds:
            if d.kind == "assign":
                st = d.node
                dpath = proj_path(st["dst"])
                if dpath:
                    # partial write  L.dpath = rv
                    n = min(len(dpath), len(path))
                    if dpath[:n] != path[:n]:
                        continue
                    rest = path[len(dpath):] if len(path) >= len(dpath) else ()
                    out += self._trace_rv(st["rv"], rest, d, opaque, textra, follow_mut, seen, via)
                else:
                    out += self._trace_rv(st["rv"], path, d, opaque, textra, follow_mut, seen, via)
            else:
                t = d.node
                dpath = proj_path(t["dst"])
                if dpath:
                    n = min(len(dpath), len(path))
                    if dpath[:n] != path[:n]:
                        continue
                    rest = path[len(dpath):] if len(path) >= len(dpath) else ()
                else:
                    rest = path
                # a collection built by a desugared collect()/extend() is transparent (as collect itself is); a hand-written one
                # only on request (`__content__`), so that container identity stays a usable root
                if rest[:1] == (ELEM,) and not dpath and callee_name(t) in _CONSTRUCTORS and not (opaque and opaque(t)) and \
                        (t.get("synthetic") == "desugared-call" or (textra and textra.get("__content__"))):
                    content = self._container_content(l, rest, opaque, textra, follow_mut, seen, via)
                    if content is not None:
                        out += content
                        continue
                out += self._trace_call(d.bb, t, rest, opaque, textra, follow_mut, seen, via)
        if follow_mut:
            for (bb, t, ai) in self.mutators.get(l, []):
                out.append(Leaf("mut", (bb, t, ai), path, via))
        return out

    def _container_content(self, l, path, opaque, textra, follow_mut, seen, via):
        """Elements of a freshly constructed collection held in local l: what its insert / push / extend calls put in.
        None when nothing is ever inserted (the caller then reports the constructor call itself)."""
        out = []
        found = False
        sub = path[1:]
        rec = lambda x, p, v: self.trace(x, p, opaque, textra, follow_mut, seen, v)
        for (bb, mt, ai) in self.mutators.get(l, []):
            if ai != 0 or bb not in self.reach:
                continue
            n = callee_name(mt) or ""
            v2 = via + (short(n),)
            if n in ("std::vec::Vec::push", "std::collections::BTreeSet::insert", "std::collections::HashSet::insert",
                     "std::collections::VecDeque::push_back") and len(mt["args"]) == 2:
                found = True
                out += rec(mt["args"][1], sub, v2)
            elif n in ("std::collections::BTreeMap::insert", "std::collections::HashMap::insert") and len(mt["args"]) == 3:
                found = True
                if sub[:1] == (F0,):
                    out += rec(mt["args"][1], sub[1:], v2)
                elif sub[:1] == (F1,):
                    out += rec(mt["args"][2], sub[1:], v2)
                elif not sub:
                    out += rec(mt["args"][1], (), v2) + rec(mt["args"][2], (), v2)
            elif n in ("std::iter::Extend::extend", "std::vec::Vec::append", "std::vec::Vec::extend_from_slice") and len(mt["args"]) == 2:
                found = True
                out += rec(mt["args"][1], (ELEM,) + sub, v2)
        return out if found else None

    def _trace_rv(self, rv, path, d, opaque, textra, follow_mut, seen, via):
        k = rv["k"]
        at = (d.bb, d.idx) if (d is not None and d.kind == "assign") else None
        rec = lambda x, p, v=via: self.trace(x, p, opaque, textra, follow_mut, seen, v, at)
        if k == "use":
            return rec(rv["op"], path)
        if k == "ref" or k == "rawptr":
            # the reference may be read at any later point: every write to the storage counts, not just those before the borrow
            so = self.storage_of(rv["place"])
            if so is not None and so[0] in self.mem_writes:
                return self._trace_storage(so[0], so[1] + tuple(path), None, opaque, textra, follow_mut, seen, via)
            return self.trace(rv["place"], path, opaque, textra, follow_mut, seen, via)
        if k == "cast":
            return rec(rv["op"], path, via + ("cast",))
        if k == "agg":
            a = rv["agg"]
            if not path and textra and textra.get("__agg_all__") and a in ("adt", "tuple", "array"):
                out = []
                for o in rv["ops"]:
                    out += rec(o, ())
                return out
            if a == "adt":
                p = path
                if p and p[0][0] == "v":
                    if p[0][1] != rv["variant"]:
                        return []
                    p = p[1:]
                if p and p[0][0] == "f":
                    if p[0][1] in rv["fields"]:
                        i = rv["fields"].index(p[0][1])
                        if i < len(rv["ops"]):
                            return rec(rv["ops"][i], p[1:])
                    return []
                return [Leaf("agg", (d.bb, d.idx, rv), path, via)]
            if a in ("tuple", "closure"):
                if path and path[0][0] == "f":
                    i = int(path[0][1])
                    if i < len(rv["ops"]):
                        return rec(rv["ops"][i], path[1:])
                    return []
                return [Leaf("agg", (d.bb, d.idx, rv), path, via)]
            if a == "array":
                if path and path[0] == ELEM:
                    out = []
                    for o in rv["ops"]:
                        out += rec(o, path[1:])
                    return out
                return [Leaf("agg", (d.bb, d.idx, rv), path, via)]
            return [Leaf("agg", (d.bb, d.idx, rv), path, via)]
        if k == "discr":
            return [Leaf("discr", (d.bb, d.idx, rv), path, via)]
        if k in ("binop", "unop"):
            return [Leaf(k, (d.bb, d.idx, rv), path, via)]
        return [Leaf("other", (d.bb, d.idx, rv), path, via)]

    def _trace_call(self, bb, t, path, opaque, textra, follow_mut, seen, via):
        n = callee_name(t)
        if opaque and opaque(t):
            return [Leaf("call", (bb, t), path, via)]
        if n in ("std::boxed::Box::new_uninit", "std::boxed::Box::new_uninit_slice", "std::boxed::Box::new_zeroed"):
            w = self._writes_through(t["dst"]["l"])
            if w:
                out = []
                for rv_d in w:
                    out += self._trace_rv(rv_d.node["rv"], path, rv_d, opaque, textra, follow_mut, seen, via + ("box-init",))
                return out
        fa = textra.get("__flow_all__") if textra else None
        if fa is not None and fa(t):
            out = []
            for a in t["args"]:
                out += self.trace(a, (), opaque, textra, follow_mut, seen, via + (short(n),), (bb, 10 ** 9))
            return out
        summ = None
        if textra and n in textra:
            summ = textra[n]
            if callable(summ):
                summ = summ(t)
        if summ is None:
            summ = summary_for(t)
        if summ is None:
            return [Leaf("call", (bb, t), path, via)]
        out = []
        matched = False
        for rp, ai, ap in summ:
            if ai >= len(t["args"]):
                continue
            if path[:len(rp)] == rp:
                matched = True
                if ap is None:      # this part of the result never carries a value
                    continue
                out += self.trace(t["args"][ai], ap + path[len(rp):], opaque, textra, follow_mut, seen,
                                  via + (short(n),), (bb, 10 ** 9))
            # (a query shorter than every rule prefix - the whole value of something the summary only
            #  describes piecewise - is answered with the call itself, below)
        if not matched:
            return [Leaf("call", (bb, t), path, via)]
        return out

    def _writes_through(self, l):
        """Assignments `(*p) = rv` through pointers derived from local l by copies, casts and field reads."""
        derived = {l}
        changed = True
        while changed:
            changed = False
            for x, ds in self.defs.items():
                if x in derived:
                    continue
                for d in ds:
                    if d.kind != "assign":
                        continue
                    rv = d.node["rv"]
                    src = None
                    if rv["k"] in ("use", "cast"):
                        src = op_place(rv["op"])
                    elif rv["k"] in ("ref", "rawptr"):
                        src = rv["place"]
                    if src is not None and src["l"] in derived:
                        derived.add(x)
                        changed = True
                        break
        out = []
        for x in derived:
            for d in self.defs.get(x, []):
                if d.kind == "assign" and "*" in d.node["dst"]["p"]:
                    out.append(d)
        return out

    # -- guard facts ----------------------------------------------------------------------------
    def switch_facts(self, bb):
        """For a switch terminator: list of (succ_index, fact).  Facts:
        ('variant', place, name, pty) ; ('notvariant', place, [names], pty)
        ('bool', node, truth) where node = ('call', bb, term) | ('binop', op, a, b, bb) ;
        ('int', operand, value) ; ('unknown',)"""
        t = self.blocks[bb]["term"]
        assert t["k"] == "switch"
        out = []
        src = self._discr_source(t["discr"], bb, 0)
        arms = t["arms"]
        if src[0] == "discr" and self._is_drop_ladder(bb, src[1]["place"]):
            # destructor dispatch generated by drop elaboration for a partially moved enum (`match x.field { A(v) => .., B(w) => .. }`
            # by value): it selects which variant's fields are still to be dropped, it is not a decision of the program
            return [(j, ("unknown",)) for j in range(len(self.succ[bb]))]
        if src[0] == "discr" and (src[1].get("pty") or "").endswith("cmp::Ordering") and not src[1]["place"]["p"]:
            # `match a.cmp(&b) { Less => .., Equal | Greater => .. }` is the comparison it spells
            dcmp = self.single_def(src[1]["place"]["l"])
            if dcmp is not None and dcmp.kind == "call" and callee_name(dcmp.node) in ("std::cmp::Ord::cmp",) and len(dcmp.node["args"]) == 2:
                a_, b_ = dcmp.node["args"]
                names = {v: nme for v, nme in src[1].get("variants", [])}
                OPS = {"Less": "Lt", "Equal": "Eq", "Greater": "Gt"}
                NEGS = {"Less": "Ge", "Equal": "Ne", "Greater": "Le"}
                JOIN = {frozenset(["Equal", "Greater"]): "Ge", frozenset(["Less", "Equal"]): "Le", frozenset(["Less", "Greater"]): "Ne"}
                for j, (tb, lab) in enumerate(self.succ[bb]):
                    if lab[0] == "sw" and names.get(lab[1]) in OPS:
                        out.append((j, ("bool", ("binop", OPS[names[lab[1]]], a_, b_, bb), True)))
                    elif lab[0] == "swm":
                        ns = frozenset(names.get(v) for v in lab[1])
                        out.append((j, ("bool", ("binop", JOIN[ns], a_, b_, bb), True)) if ns in JOIN else (j, ("unknown",)))
                    else:
                        taken = {names.get(v) for v, _ in arms}
                        rest = [n_ for n_ in OPS if n_ not in taken]
                        if len(rest) == 1:
                            out.append((j, ("bool", ("binop", OPS[rest[0]], a_, b_, bb), True)))
                        elif len(rest) == 2:
                            only = [n_ for n_ in OPS if n_ in taken]
                            out.append((j, ("bool", ("binop", NEGS[only[0]], a_, b_, bb), True)) if len(only) == 1 else (j, ("unknown",)))
                        else:
                            out.append((j, ("unknown",)))
                return out
        for j, (tb, lab) in enumerate(self.succ[bb]):
            if lab[0] == "swm" and src[0] != "discr":
                # one of several integer / char values (`'"' | '\\' => ..`): no single comparison, but the set is known
                out.append((j, ("intin", src[1], list(lab[1]))) if src[0] == "int" else (j, ("unknown",)))
                continue
            if src[0] == "discr":
                rv = src[1]
                names = {v: nme for v, nme in rv.get("variants", [])}
                allnames = [nme for _v, nme in rv.get("variants", [])]
                if lab[0] == "sw":
                    nm = names.get(lab[1], str(lab[1]))
                    out.append((j, ("variant", rv["place"], nm, rv.get("pty"), allnames)))
                elif lab[0] == "swm":
                    inside = {names.get(v, str(v)) for v in lab[1]}
                    out.append((j, ("notvariant", rv["place"], [nme for nme in allnames if nme not in inside], rv.get("pty"), allnames)))
                else:
                    taken = {v for v, _ in arms}
                    rest = [nme for v, nme in rv.get("variants", []) if v not in taken]
                    if len(rest) == 1:
                        out.append((j, ("variant", rv["place"], rest[0], rv.get("pty"), allnames)))
                    else:
                        out.append((j, ("notvariant", rv["place"], [names.get(v, str(v)) for v in taken], rv.get("pty"), allnames)))
            elif src[0] == "bool":
                neg, node = src[1], src[2]
                if lab[0] == "sw":
                    truth = (lab[1] != 0)
                else:
                    # otherwise-edge of a bool switch: the value not listed
                    listed = {v for v, _ in arms}
                    truth = (0 in listed)
                if neg:
                    truth = not truth
                out.append((j, ("bool", node, truth)))
            elif src[0] == "boolmix":
                mneg, consts, inner = src[1], src[2], src[3]
                if lab[0] == "sw":
                    truth = (lab[1] != 0)
                else:
                    truth = (0 in {v for v, _ in arms})
                if mneg:
                    truth = not truth
                if truth in consts:
                    out.append((j, ("unknown",)))
                else:
                    out.append((j, ("bool", inner[2], (not truth) if inner[1] else truth)))
            elif src[0] == "int":
                if lab[0] == "sw":
                    out.append((j, ("int", src[1], lab[1])))
                else:
                    out.append((j, ("intnot", src[1], [v for v, _ in arms])))
            else:
                out.append((j, ("unknown",)))
        return out

    def _is_drop_ladder(self, bb, place):
        """Every arm of the discriminant switch at bb either goes straight to one common block J or passes through one
        statement-free block that only drops (part of) the switched place and continues at J."""
        targets = [tb for (tb, _l) in self.succ[bb]]
        if len(targets) < 2:
            return False
        def through(tb):
            blk = self.blocks[tb]
            t = blk["term"]
            if t and t["k"] == "drop" and not blk["stmts"] and t["place"]["l"] == place["l"] and \
                    [e for e in t["place"]["p"]][:len(place["p"])] == list(place["p"]) and t.get("target") is not None:
                return t["target"]
            return None
        ends = set()
        n_drop = 0
        for tb in targets:
            th = through(tb)
            if th is not None:
                n_drop += 1
                ends.add(th)
            else:
                ends.add(tb)
        return n_drop >= 1 and len(ends) == 1

    def _discr_source(self, op, bb, depth):
        c = op_const(op)
        if c is not None:
            return ("const", c)
        p = op_place(op)
        if p is None or p["p"] or depth > 8:
            return ("int", op)
        l = p["l"]
        d = self.single_def(l)
        ty = self.local_ty(l)
        if d is None:
            if ty != "bool":
                return ("int", op)
            # a bool with several definitions, all constants but one (`a && b`, a helper returning `false` early): a value
            # that no constant definition produces can only come from the remaining definition
            consts, others = set(), []
            for dd in self.defs.get(l, []):
                c2 = op_const(dd.node["rv"]["op"]) if (dd.kind == "assign" and not dd.node["dst"]["p"] and dd.node["rv"]["k"] == "use") else None
                if c2 is not None and "int" in c2:
                    consts.add(bool(c2["int"]))
                else:
                    others.append(dd)
            if len(others) == 1 and consts and not (1 <= l <= self.argc) and (others[0].kind == "call" or not others[0].node["dst"]["p"]):
                inner = self._def_source(others[0], ty, op, depth)
                if inner[0] == "bool":
                    return ("boolmix", False, frozenset(consts), inner)
                if inner[0] == "boolmix" and not inner[1]:
                    return ("boolmix", False, frozenset(consts) | inner[2], inner[3])
            return ("bool", False, ("opaque", op))
        return self._def_source(d, ty, op, depth)

    def _def_source(self, d, ty, op, depth):
        if d.kind == "assign":
            rv = d.node["rv"]
            if rv["k"] == "discr":
                return ("discr", rv)
            if rv["k"] == "use":
                r = self._discr_source(rv["op"], d.bb, depth + 1)
                return r
            if rv["k"] == "unop" and rv["op"] == "Not":
                r = self._discr_source(rv["a"], d.bb, depth + 1)
                if r[0] == "bool":
                    return ("bool", not r[1], r[2])
                if r[0] == "boolmix":
                    return ("boolmix", not r[1], r[2], r[3])
                return ("bool", True, ("opaque", rv["a"]))
            if rv["k"] == "binop" and rv["op"] in ("Lt", "Le", "Gt", "Ge", "Eq", "Ne"):
                return ("bool", False, ("binop", rv["op"], rv["a"], rv["b"], d.bb))
            if ty == "bool":
                return ("bool", False, ("opaque", op))
            return ("int", op)
        # call
        if ty == "bool":
            return ("bool", False, ("call", d.bb, d.node))
        return ("int", op)

    def all_edge_facts(self):
        """[(edge, target, fact)] for every switch edge of the reachable graph."""
        r = getattr(self, "_all_facts", None)
        if r is None:
            r = []
            for i in sorted(self.reach):
                t = self.blocks[i]["term"]
                if t and t["k"] == "switch":
                    for j, fact in self.switch_facts(i):
                        r.append(((i, j), self.succ[i][j][0], fact))
            self._all_facts = r
        return r

    def facts_dominating(self, bb):
        """Facts of all switch edges that edge-dominate block bb."""
        return [(e, f) for (e, tb, f) in self.all_edge_facts() if bb in self.edge_dominated(e)]

    # -- loops ----------------------------------------------------------------------------------
    def _idoms(self):
        """Immediate dominators of the plain CFG (Cooper-Harvey-Kennedy)."""
        if self._idom is not None:
            return self._idom
        order = []
        seen = set()
        stack = [(0, iter([tb for (tb, _) in self.succ[0]]))]
        seen.add(0)
        while stack:
            n, it = stack[-1]
            adv = False
            for m in it:
                if m not in seen:
                    seen.add(m)
                    stack.append((m, iter([tb for (tb, _) in self.succ[m]])))
                    adv = True
                    break
            if not adv:
                order.append(n)
                stack.pop()
        rpo = list(reversed(order))
        idx = {n: i for i, n in enumerate(rpo)}
        idom = {0: 0}
        changed = True
        while changed:
            changed = False
            for n in rpo[1:]:
                new = None
                for (p, _) in self.pred[n]:
                    if p not in idom or p not in idx:
                        continue
                    if new is None:
                        new = p
                    else:
                        a, b = p, new
                        while a != b:
                            while idx[a] > idx[b]:
                                a = idom[a]
                            while idx[b] > idx[a]:
                                b = idom[b]
                        new = a
                if new is not None and idom.get(n) != new:
                    idom[n] = new
                    changed = True
        self._idom = idom
        return idom

    def dom_plain(self, a, b):
        """a dominates b in the plain (path-insensitive) CFG."""
        idom = self._idoms()
        if b not in idom:
            return False
        while True:
            if a == b:
                return True
            if b == 0:
                return False
            b = idom[b]

    def back_edges(self):
        """Edges (a,j)->b where b dominates a (plain CFG: loop structure is syntactic)."""
        r = getattr(self, "_back_edges", None)
        if r is None:
            r = []
            for i in sorted(self.reach):
                for j, (tb, lab) in enumerate(self.succ[i]):
                    if self.dom_plain(tb, i):
                        r.append(((i, j), tb))
            self._back_edges = r
        return r

    def loop_blocks(self, header):
        """Natural loop of `header`: blocks that reach a back edge into header without leaving."""
        body = {header}
        stack = []
        for (e, tb) in self.back_edges():
            if tb == header:
                stack.append(e[0])
        while stack:
            b = stack.pop()
            if b in body:
                continue
            body.add(b)
            for (p, _) in self.pred[b]:
                if p in self.reach:
                    stack.append(p)
        return body


# ---------------------------------------------------------------------------------------------
# comparison normalisation
# ---------------------------------------------------------------------------------------------
CMP_CALLS = {
    "std::cmp::PartialOrd::lt": "Lt", "std::cmp::PartialOrd::le": "Le",
    "std::cmp::PartialOrd::gt": "Gt", "std::cmp::PartialOrd::ge": "Ge",
    "std::cmp::PartialEq::eq": "Eq", "std::cmp::PartialEq::ne": "Ne",
}
NEG = {"Lt": "Ge", "Le": "Gt", "Gt": "Le", "Ge": "Lt", "Eq": "Ne", "Ne": "Eq"}
SWAP = {"Lt": "Gt", "Le": "Ge", "Gt": "Lt", "Ge": "Le", "Eq": "Eq", "Ne": "Ne"}


def as_cmp(fact):
    """A ('bool', node, truth) fact as a normalised comparison (op, a, b) that HOLDS on the edge,
    or None."""
    if fact[0] == "int":
        # `match x { 3 => .. }` is `x == 3`
        return ("Eq", fact[1], {"const": {"int": fact[2], "ty": "int", "repr": str(fact[2])}})
    if fact[0] == "intnot" and len(fact[2]) == 1:
        return ("Ne", fact[1], {"const": {"int": fact[2][0], "ty": "int", "repr": str(fact[2][0])}})
    if fact[0] != "bool":
        return None
    node, truth = fact[1], fact[2]
    if node[0] == "binop":
        op, a, b = node[1], node[2], node[3]
    elif node[0] == "call":
        op = CMP_CALLS.get(callee_name(node[2]))
        if op is None or len(node[2]["args"]) != 2:
            return None
        a, b = node[2]["args"]
    else:
        return None
    if not truth:
        op = NEG[op]
    return (op, a, b)


def as_pred(fact):
    """('bool', ('call', bb, term), truth) -> (normalised callee, term, truth)."""
    if fact[0] == "bool" and fact[1][0] == "call":
        return (callee_name(fact[1][2]), fact[1][2], fact[2])
    return None


# ---------------------------------------------------------------------------------------------
# outcome discipline
# ---------------------------------------------------------------------------------------------
def uses_of_local(body, l):
    """(bb, idx|-1, node, role) for every read of local l as an operand/place base."""
    out = []
    def scan(node, bb, idx, top):
        if isinstance(node, dict):
            if "l" in node and "p" in node and isinstance(node.get("p"), list):
                if node["l"] == l:
                    out.append((bb, idx, top))
                for e in node["p"]:
                    if isinstance(e, dict) and e.get("idx") == l:
                        out.append((bb, idx, top))
                return
            for k, v in node.items():
                if k in ("dst",) and top is node:
                    # the written place itself is not a read unless projected through a deref
                    if v.get("l") == l and v.get("p"):
                        out.append((bb, idx, top))
                    continue
                scan(v, bb, idx, top)
        elif isinstance(node, list):
            for v in node:
                scan(v, bb, idx, top)
    for i in sorted(body.reach):
        b = body.blocks[i]
        for j, st in enumerate(b["stmts"]):
            scan(st, i, j, st)
        t = b["term"]
        if t:
            scan(t, i, -1, t)
    return out
