"""Loading and pretty-printing of the facts document written by driver/itv-facts."""
import json


class Facts:
    def __init__(self, doc):
        self.doc = doc
        self.fns = {f["key"]: f for f in doc["fns"]}
        self.by_path = {}
        for f in doc["fns"]:
            self.by_path.setdefault(f["path"], []).append(f)
        self.adts = {a["path"]: a for a in doc["adts"]}
        self.impls = doc["impls"]
        self.traits = doc["traits"]
        from . import core as _core
        _core.PROMOTED.clear()
        _core._PROMOTED_BODIES.clear()
        for f in doc["fns"]:
            if f.get("promoted"):
                _core.PROMOTED[f["key"]] = f["promoted"]
        self.closures_of = {}
        for f in doc["fns"]:
            if f["kind"] == "Closure":
                self.closures_of.setdefault(f["parent"], []).append(f["key"])

    @staticmethod
    def load(path):
        with open(path) as fh:
            return Facts(json.load(fh))

    # -- lookup -----------------------------------------------------------------------------
    def fn(self, path):
        """Unique function by def_path_str; raises KeyError if absent or ambiguous."""
        c = self.by_path.get(path, [])
        if len(c) != 1:
            raise KeyError(path)
        return c[0]

    def fn_opt(self, path):
        c = self.by_path.get(path, [])
        return c[0] if len(c) == 1 else None

    def in_module(self, prefix):
        return [f for f in self.doc["fns"] if f["path"].startswith(prefix)]

    def root_of(self, f):
        """Outermost non-closure ancestor of a closure body (or f itself)."""
        while f["kind"] == "Closure":
            f = self.fns[f["parent"]]
        return f


# ---- printing --------------------------------------------------------------------------------
def place_s(p):
    s = "_%d" % p["l"]
    for e in p["p"]:
        if e == "*":
            s = "(*%s)" % s
        elif isinstance(e, str):
            s = "%s as %s" % (s, e)
        elif "f" in e:
            s = "%s.%s" % (s, e["f"])
        elif "d" in e:
            s = "(%s as %s)" % (s, e["d"])
        elif "idx" in e:
            s = "%s[_%d]" % (s, e["idx"])
        elif "ci" in e:
            s = "%s[%s%d]" % (s, "-" if e["from_end"] else "", e["ci"])
        elif "sub" in e:
            s = "%s[%d..%s%d]" % (s, e["sub"], "-" if e["from_end"] else "", e["to"])
    return s


def op_s(o):
    if "copy" in o:
        return place_s(o["copy"])
    if "move" in o:
        return "move " + place_s(o["move"])
    if "const" in o:
        c = o["const"]
        if "str" in c:
            return "const %r" % c["str"]
        if "int" in c:
            return "const %d_%s" % (c["int"], c["ty"])
        if "fn" in c:
            return "fn " + c["fn"]
        if "static" in c:
            return "static " + c["static"]
        return c["repr"]
    return str(o)


def rv_s(rv):
    k = rv["k"]
    if k == "use":
        return op_s(rv["op"])
    if k == "ref":
        return ("&mut " if rv["mut"] else "&") + place_s(rv["place"])
    if k == "rawptr":
        return "&raw " + place_s(rv["place"])
    if k == "cast":
        return "%s as %s (%s)" % (op_s(rv["op"]), rv["ty"], rv["kind"])
    if k == "binop":
        return "%s(%s, %s)" % (rv["op"], op_s(rv["a"]), op_s(rv["b"]))
    if k == "unop":
        return "%s(%s)" % (rv["op"], op_s(rv["a"]))
    if k == "discr":
        return "discriminant(%s)" % place_s(rv["place"])
    if k == "agg":
        a = rv["agg"]
        ops = ", ".join(op_s(x) for x in rv["ops"])
        if a == "adt":
            fl = rv["fields"]
            inner = ", ".join("%s: %s" % (fl[i] if i < len(fl) else i, op_s(x)) for i, x in enumerate(rv["ops"]))
            return "%s::%s { %s }" % (rv["adt"], rv["variant"], inner)
        if a == "closure":
            return "closure %s [%s]" % (rv["closure_key"], ops)
        return "%s(%s)" % (a, ops)
    if k == "repeat":
        return "[%s; %s]" % (op_s(rv["op"]), rv["n"])
    return rv.get("repr", k)


def term_s(t):
    k = t["k"]
    if k == "goto":
        return "goto bb%d" % t["target"]
    if k == "switch":
        arms = ", ".join("%d: bb%d" % (v, b) for v, b in t["arms"])
        return "switchInt(%s) [%s, otherwise: bb%d]" % (op_s(t["discr"]), arms, t["otherwise"])
    if k == "call":
        tgt = "bb%d" % t["target"] if t["target"] is not None else "!"
        r = t.get("resolved")
        extra = "" if not r or r == t["callee"] else "  =>  " + t.get("resolved_full", r)
        return "%s = %s(%s) -> %s%s" % (
            place_s(t["dst"]), t.get("callee_full", t["callee"]),
            ", ".join(op_s(a) for a in t["args"]), tgt, extra)
    if k == "drop":
        return "drop(%s) -> bb%d" % (place_s(t["place"]), t["target"])
    if k == "assert":
        return "assert(%s == %s, %s) -> bb%d" % (op_s(t["cond"]), t["expected"], t["msg"], t["target"])
    return k


def dump_fn(f, show_cleanup=False):
    out = []
    out.append("fn %s  [%s] key=%s at %s exp=%s" % (f["path"], f["kind"], f["key"], f["at"], f["exp"]))
    for i, l in enumerate(f["locals"]):
        tag = "arg" if 1 <= i <= f["arg_count"] else ("ret" if i == 0 else "")
        out.append("    let _%d: %s  %s %s" % (i, l["ty"], l["name"] or "", tag))
    for u in f.get("upvars", []):
        out.append("    upvar %s = %s" % (u["name"], place_s(u["place"])))
    for bi, b in enumerate(f["blocks"]):
        if b["cleanup"] and not show_cleanup:
            continue
        out.append("  bb%d%s:" % (bi, " (cleanup)" if b["cleanup"] else ""))
        for st in b["stmts"]:
            if st["k"] == "assign":
                out.append("      %s = %s%s" % (place_s(st["dst"]), rv_s(st["rv"]),
                                                ("      // " + st["exp"]) if st.get("exp") else ""))
            else:
                out.append("      discriminant(%s) = %d" % (place_s(st["dst"]), st["vi"]))
        t = b["term"]
        if t:
            out.append("      %s    // %s%s" % (term_s(t), t["at"], (" " + t["exp"]) if t.get("exp") else ""))
    return "\n".join(out)


if __name__ == "__main__":
    import sys
    fx = Facts.load(sys.argv[1])
    pat = sys.argv[2]
    for f in fx.doc["fns"]:
        if pat in f["path"] or pat in f["key"]:
            print(dump_fn(f, show_cleanup="--cleanup" in sys.argv))
            print()
