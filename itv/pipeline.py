"""The final-product verification pipeline as a REGION super-graph with stages located by role."""
from .core import (Body, callee_name, norm, op_place, op_const, proj_path, short, as_cmp, as_pred, leaf_s,
                   OK, ERR, SOME, CONT, BRK, F0, F1, ELEM)
from .guards import root_ids, same_root, def_call

ANCHOR = "verifylib::in_toto_verify"
GATE = "models::metadata::Metablock::verify"
FILE_READS = {"std::fs::read_to_string", "std::fs::read", "std::fs::File::open", "std::fs::OpenOptions::open"}
FILE_WRITES = {"std::fs::write", "std::fs::File::create", "std::fs::OpenOptions::open", "std::fs::create_dir",
               "std::fs::create_dir_all", "std::fs::remove_file", "std::fs::rename", "std::fs::copy"}
SPAWN = {"std::process::Command::output", "std::process::Command::spawn", "std::process::Command::status"}

V_LAYOUT = ("v", "Layout")
V_LINK = ("v", "Link")


def fld(n):
    return ("f", n)


class Pipeline:
    def __init__(self, ctx):
        self.ctx = ctx
        self.fx = ctx.fx
        f = ctx.fx.fn_opt(ANCHOR)
        self.ok = f is not None
        if not self.ok:
            return
        self.root = f
        b = ctx.region(ANCHOR)
        if not b.ps:
            b.enable_path_sensitivity()
        self.b = b
        self.params = {(b.locals[i].get("name") or "_%d" % i): i for i in range(1, b.argc + 1)}
        self._ok_edges = {}
        # ---- gate: the Metablock::verify call whose receiver is exactly parameter `layout`
        self.gates = []
        self.link_verifies = []
        for i, t in b.calls_named(GATE):
            r = root_ids(b, t["args"][0])
            if r == frozenset([("param", 1, ())]):
                self.gates.append((i, t))
            else:
                self.link_verifies.append((i, t))
        self.gate = self.gates[0] if len(self.gates) == 1 else None
        self.recursions = b.calls_named(ANCHOR)
        self.runs = b.calls_named("runlib::in_toto_run", "runlib::run_command")
        self.file_reads = [(i, t) for i, t in b.calls() if callee_name(t) in FILE_READS]
        self.file_writes = [(i, t) for i, t in b.calls() if callee_name(t) in FILE_WRITES]
        self.spawns = [(i, t) for i, t in b.calls() if callee_name(t) in SPAWN]
        self.summaries = b.calls_named("models::metadata::Metablock::new")
        self.nows = b.calls_named("chrono::Utc::now")

    # ------------------------------------------------------------------------------------------
    def gate_leaf_path(self, *rest):
        """Provenance path of (a field of) the verified layout: Ok payload of the gate, Layout variant."""
        return (OK, F0, V_LAYOUT, F0) + tuple(rest)

    def is_verified_layout(self, x, rest=(), path=()):
        """All value leaves of operand/place x (+path) are the gate's Ok payload (Layout variant) at
        field path `rest` (prefix match)."""
        if self.gate is None:
            return False
        leaves = self.b.trace(x, path)
        if not leaves:
            return False
        want = self.gate_leaf_path(*rest)
        for lf in leaves:
            if lf.kind != "call" or lf.data[0] != self.gate[0]:
                return False
            if lf.path[:len(want)] != want:
                return False
        return True

    def leaves_s(self, x, path=()):
        return "{" + ", ".join(sorted(set(leaf_s(self.b, l) for l in self.b.trace(x, path)))) + "}"

    def ok_edges(self, call_bb):
        """Switch edges that are taken exactly when the result of the call at call_bb is Ok/Some."""
        r = self._ok_edges.get(call_bb)
        if r is not None:
            return r
        b = self.b
        ok, err = [], []
        for (e, tb, f) in b.all_edge_facts():
            if f[0] != "variant":
                continue
            v = f[2]
            if v in ("Continue", "Ok", "Some"):
                path = (("v", v), F0)
            elif v in ("Break", "Err"):
                path = (("v", v), F0) if v == "Err" else (BRK, F0, ERR, F0)
            else:
                continue
            leaves = b.trace(f[1], path)
            if not leaves:
                # unit payloads etc.: fall back to the whole value
                continue
            if all(lf.kind == "call" and lf.data[0] == call_bb and lf.path in ((OK, F0), (SOME, F0), (ERR, F0)) for lf in leaves):
                if v in ("Continue", "Ok", "Some") and all(lf.path[:1] in ((OK,), (SOME,)) for lf in leaves):
                    ok.append(e)
                elif v in ("Break", "Err"):
                    err.append(e)
        self._ok_edges[call_bb] = (ok, err)
        return ok, err

    def dominated_by_ok(self, call_bb, target_bb):
        ok, _ = self.ok_edges(call_bb)
        return any(target_bb in self.b.edge_dominated(e) for e in ok)

    # ---- loops over the verified layout's collections --------------------------------------------
    def loops_over(self, field):
        """[(next_bb, next_term, loop blocks, exhaustion edges)] for `for x in &verified_layout.<field>`."""
        b = self.b
        out = []
        want = self.gate_leaf_path(fld(field), ELEM)
        for i, t in b.calls_named("std::iter::Iterator::next"):
            leaves = b.trace(t["dst"], (SOME, F0))
            if not leaves or not all(lf.kind == "call" and self.gate and lf.data[0] == self.gate[0] and lf.path == want for lf in leaves):
                continue
            heads = [tb for (e, tb) in b.back_edges()]
            loops = [b.loop_blocks(h) for h in set(heads) if i in b.loop_blocks(h) and
                     all(b.dom_plain(i, e[0]) for (e, tb) in b.back_edges() if tb == h)]
            if not loops:
                continue
            loop = min(loops, key=len)
            exh = [e for (e, tb, f) in b.all_edge_facts() if f[0] == "variant" and f[2] == "None"
                   and f[1]["l"] == t["dst"]["l"] and not proj_path(f[1])]
            out.append((i, t, loop, exh))
        return out

    def loop_containing(self, loops, bb):
        c = [l for l in loops if bb in l[2]]
        return min(c, key=lambda l: len(l[2])) if c else None

    def inst_of(self, bb):
        return self.b.blocks[bb].get("inst", "")

    def where(self, bb):
        blk = self.b.blocks[bb]
        return "%s (%s)" % (blk["term"]["at"] if blk["term"] else "?", blk.get("origin", ""))


class Stages:
    """Stage loops of the pipeline located by what they contain."""

    def __init__(self, P):
        self.P = P
        b = P.b
        self.b = b
        self.loops = b.loops()
        run_bbs = {i for (i, t) in P.runs}
        self.run_bbs = run_bbs
        def outer_loop_of(blocks, must_exclude=()):
            """Largest natural loop containing all `blocks` and none of `must_exclude`."""
            cands = [l for l in self.loops.values() if all(x in l for x in blocks) and not any(x in l for x in must_exclude)]
            return max(cands, key=len) if cands else None
        self.outer_loop_of = outer_loop_of
        self.load = outer_loop_of([i for (i, t) in P.file_reads][:1]) if P.file_reads else None
        self.thresh = outer_loop_of([i for (i, t) in P.link_verifies][:1]) if P.link_verifies else None
        self.sub = outer_loop_of([i for (i, t) in P.recursions][:1], run_bbs) if P.recursions else None
        # agreement: comparison of .materials / .products between two LinkMetadata values
        agree_blocks = []
        for (e, tb, f) in b.all_edge_facts():
            c = as_cmp(f)
            if not c:
                continue
            for x in (c[1], c[2]):
                for lf in b.trace(x):
                    if lf.kind != "const" and lf.path[-1:] in ((fld("materials"),), (fld("products"),)):
                        agree_blocks.append(e[0])
        self.agree_blocks = sorted(set(agree_blocks))
        self.agree = outer_loop_of(self.agree_blocks[:1], run_bbs) if self.agree_blocks else None
        # rule engine instances: blocks switching on the discriminant of an ArtifactRule
        # one instance per outermost loop around the dispatch (the loop over the items whose rules are applied), however many
        # helper levels lie between in_toto_verify and the rule engine
        rule_blocks = {}
        loop_of = {}
        for (e, tb, f) in b.all_edge_facts():
            if f[0] in ("variant", "notvariant") and (f[3] or "").endswith("rule::ArtifactRule"):
                if e[0] not in loop_of:
                    lp = outer_loop_of([e[0]], run_bbs)
                    loop_of[e[0]] = lp
                lp = loop_of[e[0]]
                key = frozenset(lp) if lp else frozenset()
                rule_blocks.setdefault(key, set()).add(e[0])
        self.rule_instances = []
        for key, blks in sorted(rule_blocks.items(), key=lambda kv: min(kv[1])):
            lp = set(key) if key else None
            hdr = min(lp) if lp else min(blks)
            inst = b.blocks[hdr].get("inst", "")
            top = inst or "/"
            self.rule_instances.append((top, blks, lp))

    def _ty_of(self, op):
        p = op_place(op)
        if p is None:
            return ""
        return self.b.local_ty(p["l"])

    def exhaustion(self, loop):
        return self.b.loop_exhaustion_edges(loop) if loop else []
